//go:build verif

package main

import (
	"fmt"
	"math"
	"math/big"
	"os"

	"github.com/cloudwego/dynamicgo/proto"
	"github.com/cloudwego/dynamicgo/proto/binary"
)

// 2007: descriptor-driven writer / reader on whole messages (lists packed and unpacked, maps of every key kind,
// nested messages), by field number and by field name. Go values are built from the abstract value tree of
// harness/protogen.go with the Go types proto/binary documents (fixed32/fixed64 travel as int32/int64, enums as
// proto.EnumNumber). Everything the implementation produced is handed to the Gallina checker as bytes:
//   b      = WriteAnyWithDesc(goValue)
//   b_rt   = reference encoding of ReadAnyWithDesc(b)          (read-back of what was written)
//   b_rt2  = reference encoding of ReadAnyWithDesc(refBytes)   (reading what the reference wrote)
//   b_can  = reference re-encoding of b (is b accepted by the reference, and as which message)
func init() {
	base := generators["C20"]
	generators["C20"] = func(r *rng, n int) {
		base(r, n)
		genC20Msg(r, n)
	}
}

func dgScalarToGo(kind int, v *pgVal) interface{} {
	switch kind {
	case 5, 15, 17:
		return int32(v.I.Int64())
	case 7: // fixed32 travels as int32
		return int32(uint32(v.I.Uint64()))
	case 14:
		return proto.EnumNumber(int32(v.I.Int64()))
	case 3, 16, 18:
		return v.I.Int64()
	case 6: // fixed64 travels as int64
		return int64(v.I.Uint64())
	case 13:
		return uint32(v.I.Uint64())
	case 4:
		return v.I.Uint64()
	case pgKBool:
		return v.I.Sign() != 0
	case pgKFloat:
		return math.Float32frombits(uint32(v.I.Uint64()))
	case pgKDouble:
		return math.Float64frombits(v.I.Uint64())
	case pgKString:
		return string(v.B)
	case pgKBytes:
		return append([]byte{}, v.B...)
	}
	panic(fmt.Sprintf("dgScalarToGo: kind %d", kind))
}

func dgScalarFromGo(kind int, x interface{}) (*pgVal, error) {
	bad := func() (*pgVal, error) { return nil, fmt.Errorf("Go type %T for kind %d", x, kind) }
	switch kind {
	case 5, 15, 17:
		if y, ok := x.(int32); ok {
			return pgNum(kind, big.NewInt(int64(y))), nil
		}
	case 7:
		if y, ok := x.(int32); ok {
			return pgNum(kind, new(big.Int).SetUint64(uint64(uint32(y)))), nil
		}
	case 14:
		if y, ok := x.(proto.EnumNumber); ok {
			return pgNum(kind, big.NewInt(int64(y))), nil
		}
	case 3, 16, 18:
		if y, ok := x.(int64); ok {
			return pgNum(kind, big.NewInt(y)), nil
		}
	case 6:
		if y, ok := x.(int64); ok {
			return pgNum(kind, new(big.Int).SetUint64(uint64(y))), nil
		}
	case 13:
		if y, ok := x.(uint32); ok {
			return pgNum(kind, new(big.Int).SetUint64(uint64(y))), nil
		}
	case 4:
		if y, ok := x.(uint64); ok {
			return pgNum(kind, new(big.Int).SetUint64(y)), nil
		}
	case pgKBool:
		if y, ok := x.(bool); ok {
			if y {
				return pgNum(kind, big.NewInt(1)), nil
			}
			return pgNum(kind, big.NewInt(0)), nil
		}
	case pgKFloat:
		if y, ok := x.(float32); ok {
			return pgNum(kind, new(big.Int).SetUint64(uint64(math.Float32bits(y)))), nil
		}
	case pgKDouble:
		if y, ok := x.(float64); ok {
			return pgNum(kind, new(big.Int).SetUint64(math.Float64bits(y))), nil
		}
	case pgKString:
		if y, ok := x.(string); ok {
			return pgStr(kind, []byte(y)), nil
		}
	case pgKBytes:
		if y, ok := x.([]byte); ok {
			return pgStr(kind, append([]byte{}, y...)), nil
		}
	}
	return bad()
}

func (c *pgCompiled) dgToGo(v *pgVal, byName bool) interface{} {
	one := func(f *pgField, e *pgVal) interface{} {
		if f.Kind == pgKMessage {
			return c.dgToGo(e, byName)
		}
		return dgScalarToGo(f.Kind, e)
	}
	var byN map[proto.FieldNumber]interface{}
	var byS map[string]interface{}
	if byName {
		byS = map[string]interface{}{}
	} else {
		byN = map[proto.FieldNumber]interface{}{}
	}
	for _, fv := range v.Fields {
		f := fv.F
		var x interface{}
		switch f.Label {
		case pgSingular:
			x = one(f, fv.V)
		case pgRepeated:
			l := make([]interface{}, 0, len(fv.V.Elems))
			for _, e := range fv.V.Elems {
				l = append(l, one(f, e))
			}
			x = l
		case pgMap:
			if f.KeyKind == pgKString {
				mp := map[string]interface{}{}
				for _, kv := range fv.V.Entries {
					mp[string(kv.K.B)] = one(f, kv.V)
				}
				x = mp
			} else {
				mp := map[interface{}]interface{}{}
				for _, kv := range fv.V.Entries {
					mp[dgScalarToGo(f.KeyKind, kv.K)] = one(f, kv.V)
				}
				x = mp
			}
		}
		if byName {
			byS[f.Name] = x
		} else {
			byN[proto.FieldNumber(f.Num)] = x
		}
	}
	if byName {
		return byS
	}
	return byN
}

func (c *pgCompiled) dgFromGo(x interface{}, msgName string, byName bool) (*pgVal, error) {
	m := c.S.msg(msgName)
	v := &pgVal{Tag: 1, Kind: pgKMessage}
	if x == nil {
		return v, nil // ReadBaseTypeWithDesc reports an empty sub-message as nil
	}
	var byN map[proto.FieldNumber]interface{}
	var byS map[string]interface{}
	var ok bool
	if byName {
		if byS, ok = x.(map[string]interface{}); !ok {
			return nil, fmt.Errorf("message %s read as %T", msgName, x)
		}
	} else {
		if byN, ok = x.(map[proto.FieldNumber]interface{}); !ok {
			return nil, fmt.Errorf("message %s read as %T", msgName, x)
		}
	}
	one := func(f *pgField, y interface{}) (*pgVal, error) {
		if f.Kind == pgKMessage {
			return c.dgFromGo(y, f.MsgName, byName)
		}
		return dgScalarFromGo(f.Kind, y)
	}
	seen := 0
	for _, f := range m.sorted() {
		var y interface{}
		var present bool
		if byName {
			y, present = byS[f.Name]
		} else {
			y, present = byN[proto.FieldNumber(f.Num)]
		}
		if !present {
			continue
		}
		seen++
		var fv *pgVal
		switch f.Label {
		case pgSingular:
			e, err := one(f, y)
			if err != nil {
				return nil, err
			}
			fv = e
		case pgRepeated:
			l, ok := y.([]interface{})
			if !ok {
				return nil, fmt.Errorf("repeated field %s read as %T", f.Name, y)
			}
			fv = &pgVal{Tag: 4, Kind: f.Kind, Packed: pgIsNumKind(f.Kind)}
			for _, z := range l {
				e, err := one(f, z)
				if err != nil {
					return nil, err
				}
				fv.Elems = append(fv.Elems, e)
			}
			if len(l) == 0 {
				continue
			}
		case pgMap:
			fv = &pgVal{Tag: 5, Kind: f.Kind, KeyKind: f.KeyKind}
			add := func(kx, vx interface{}) error {
				k, err := dgScalarFromGo(f.KeyKind, kx)
				if err != nil {
					return err
				}
				e, err := one(f, vx)
				if err != nil {
					return err
				}
				fv.Entries = append(fv.Entries, pgKV{K: k, V: e})
				return nil
			}
			switch mp := y.(type) {
			case map[interface{}]interface{}:
				for kx, vx := range mp {
					if err := add(kx, vx); err != nil {
						return nil, err
					}
				}
			case map[string]interface{}:
				for kx, vx := range mp {
					if err := add(kx, vx); err != nil {
						return nil, err
					}
				}
			case map[int]interface{}:
				return nil, fmt.Errorf("map field %s read as map[int]", f.Name)
			default:
				return nil, fmt.Errorf("map field %s read as %T", f.Name, y)
			}
			if len(fv.Entries) == 0 {
				continue
			}
			pgSortEntries(fv.Entries)
		}
		v.Fields = append(v.Fields, pgFV{F: f, V: fv})
	}
	n := len(byS) + len(byN)
	if seen != n {
		return nil, fmt.Errorf("message %s read with %d members of which %d are declared fields", msgName, n, seen)
	}
	return v, nil
}

func genC20Msg(r *rng, n int) {
	nschemas := 6 + n/400
	for si := 0; si < nschemas; si++ {
		s := genProtoSchema(r.fork(), pgOpts{MaxDepth: 3})
		c, err := compileProtoSchema(s)
		if err != nil {
			continue
		}
		sf := s.caseFields()
		for k := 0; k < 6; k++ {
			v := genProtoValue(r.fork(), c, s.Root, 0)
			refb, err := c.encodeRef(v, s.Root)
			if err != nil {
				continue
			}
			for mode := 0; mode < 2; mode++ {
				byName := mode == 1
				fields := append(append([]string{}, sf...), v.caseFields()...)
				gv := c.dgToGo(v, byName)
				var b []byte
				var werr error
				okw, _ := noPanic(func() {
					p := binary.NewBinaryProtocolBuffer()
					werr = p.WriteAnyWithDesc(c.Dyn, gv, false, false, false, byName)
					b = append([]byte{}, p.Buf...)
					binary.FreeBinaryProtocol(p)
				})
				wcode := berr(werr)
				if !okw {
					wcode = "n3"
				}
				// read back what was written / what the reference wrote, re-encode through the reference
				readBack := func(in []byte) (string, []byte) {
					var g interface{}
					var rerr error
					okr, _ := noPanic(func() {
						p := binary.NewBinaryProtol(append([]byte{}, in...))
						g, rerr = p.ReadAnyWithDesc(c.Dyn, false, true, false, byName)
					})
					if !okr {
						return "n3", nil
					}
					if rerr != nil {
						return "n1", nil
					}
					pv, err := c.dgFromGo(g, s.Root, byName)
					if err != nil {
						return "n4", []byte(err.Error())
					}
					if os.Getenv("VERIF_DEBUG") != "" && !pgValEqual(pv, v) {
						fmt.Fprintf(os.Stderr, "DEBUG readback differs (byName=%v, input=%x)\n%s\nvalue: %s\ndiff: %s\n\n", byName, in, c.Text, v.String(), pgValDiff(v, pv))
					}
					rb, err := c.encodeRef(pv, s.Root)
					if err != nil {
						return "n5", []byte(err.Error())
					}
					return "n0", rb
				}
				r1, brt := "n2", []byte(nil)
				if okw && werr == nil {
					r1, brt = readBack(b)
				}
				r2, brt2 := readBack(refb)
				// the reference's view of the written bytes
				acc, bcan := "n0", []byte(nil)
				if okw && werr == nil {
					if os.Getenv("VERIF_DEBUG") != "" {
						if pv, err := c.dumpRef(b, s.Root); err != nil || !pgValEqual(pv, v) {
							d := ""
							if err == nil {
								d = pgValDiff(v, pv)
							}
							fmt.Fprintf(os.Stderr, "DEBUG written bytes differ for the reference (byName=%v, b=%x err=%v)\n%s\nvalue: %s\ndiff: %s\n\n", byName, b, err, c.Text, v.String(), d)
						}
					}
					if pv, err := c.dumpRef(b, s.Root); err != nil {
						acc = "n1"
					} else if bcan, err = c.encodeRef(pv, s.Root); err != nil {
						acc = "n1"
					}
				}
				fields = append(fields, fi(mode), wcode, fx(b), r1, fx(brt), fx(refb), r2, fx(brt2), acc, fx(bcan))
				out.emit(2007, fields...)
			}
		}
	}
}
