//go:build verif

// C15 — Protobuf descriptors mirror the schema.
// Generates abstract proto3 schemas (several files / packages, nested declarations, equal simple names in
// different scopes, recursion, maps of every key kind, enums, all scalar kinds, packed options, explicit
// json_name, streaming methods), prints them as .proto text, parses them with dynamicgo under every
// ParseServiceMode and dumps the resulting descriptor graph through the PUBLIC accessors only, with a
// visited set keyed by *MessageDescriptor so that the checker can tell WHICH descriptor was attached.
// The same text goes through jhump/protoreflect (linker) and protobuf-go (protodesc) as a reference to
// triage mistakes of the generator / the Coq model. The expectation is computed by coq/model/PIdl.v.
package main

import (
	"context"
	"fmt"
	"math"
	"os"
	"sort"
	"strings"
	"unsafe"

	"github.com/cloudwego/dynamicgo/internal/util"
	"github.com/cloudwego/dynamicgo/meta"
	"github.com/cloudwego/dynamicgo/proto"
	"github.com/jhump/protoreflect/desc"
	"github.com/jhump/protoreflect/desc/protoparse"
	"google.golang.org/protobuf/reflect/protodesc"
	"google.golang.org/protobuf/reflect/protoreflect"
)

func init() { generators["C15"] = genC15 }

// ---------------------------------------------------------------------------------------------- abstract schema

type pField struct {
	num     int
	name    string
	json    string
	hasJSON bool
	label   int // 0 singular 1 repeated 2 map
	packopt int // 0 none 1 packed=true 2 packed=false
	keykind int
	kind    int    // scalar kind, 0 = named
	ref     string // as written
	// text-only decoration (the descriptor must not depend on it): member of oneof group n / proto3 `optional`
	oneof    int
	optional bool
	// other field options (deprecated, jstype): text only, no descriptor attribute (packedness in particular) depends on them
	extra      []string
	extraFirst bool // written before json_name / packed instead of after
}

type p15Msg struct {
	name   string
	full   string
	fields []*pField
	nested []*p15Msg
	enums  []string // simple names of nested enums
	file   *pFile
}

type pMethod struct {
	name, in, out string
	cs, ss        bool
}
type pSvc struct {
	name    string
	methods []*pMethod
}
type pFile struct {
	path    string
	pkg     string
	imports []string
	msgs    []*p15Msg
	enums   []string
	svcs    []*pSvc
}
type pSchema struct{ files []*pFile }

var c15KindKeyword = map[int]string{1: "double", 2: "float", 3: "int64", 4: "uint64", 5: "int32", 6: "fixed64", 7: "fixed32", 8: "bool",
	9: "string", 12: "bytes", 13: "uint32", 15: "sfixed32", 16: "sfixed64", 17: "sint32", 18: "sint64"}
var c15ScalarKinds = []int{1, 2, 3, 4, 5, 6, 7, 8, 9, 12, 13, 15, 16, 17, 18}
var c15MapKeyKinds = []int{3, 4, 5, 6, 7, 8, 9, 13, 15, 16, 17, 18}

func packableKind(k int) bool { return k != 9 && k != 12 && k != 11 && k != 0 }

func (f *pFile) qual(n string) string {
	if f.pkg == "" {
		return n
	}
	return f.pkg + "." + n
}

func (m *p15Msg) walk(fn func(*p15Msg)) {
	fn(m)
	for _, c := range m.nested {
		c.walk(fn)
	}
}
func (f *pFile) allMsgs() (out []*p15Msg) {
	for _, m := range f.msgs {
		m.walk(func(x *p15Msg) { out = append(out, x) })
	}
	return
}

// ---- text
func (f *pField) text() string {
	var ty string
	if f.kind != 0 {
		ty = c15KindKeyword[f.kind]
	} else {
		ty = f.ref
	}
	var opts []string
	if f.hasJSON {
		opts = append(opts, fmt.Sprintf("json_name = %q", f.json))
	}
	if f.packopt == 1 {
		opts = append(opts, "packed = true")
	} else if f.packopt == 2 {
		opts = append(opts, "packed = false")
	}
	if f.extraFirst {
		opts = append(append([]string{}, f.extra...), opts...)
	} else {
		opts = append(opts, f.extra...)
	}
	o := ""
	if len(opts) > 0 {
		o = " [" + strings.Join(opts, ", ") + "]"
	}
	switch f.label {
	case 1:
		return fmt.Sprintf("repeated %s %s = %d%s;", ty, f.name, f.num, o)
	case 2:
		return fmt.Sprintf("map<%s, %s> %s = %d%s;", c15KindKeyword[f.keykind], ty, f.name, f.num, o)
	}
	return fmt.Sprintf("%s %s = %d%s;", ty, f.name, f.num, o)
}

func enumText(ind, full, name string) string {
	v := strings.ToUpper(strings.ReplaceAll(full, ".", "_"))
	return fmt.Sprintf("%senum %s { %s_V0 = 0; %s_V1 = 1; }\n", ind, name, v, v)
}

func (m *p15Msg) text(ind string) string {
	var sb strings.Builder
	sb.WriteString(ind + "message " + m.name + " {\n")
	for _, e := range m.enums {
		sb.WriteString(enumText(ind+"  ", m.full+"."+e, e))
	}
	for _, c := range m.nested {
		sb.WriteString(c.text(ind + "  "))
	}
	open := 0
	for _, f := range m.fields {
		if open != 0 && f.oneof != open {
			sb.WriteString(ind + "  }\n")
			open = 0
		}
		if f.oneof != 0 && open == 0 {
			sb.WriteString(fmt.Sprintf("%s  oneof one_of_%d {\n", ind, f.oneof))
			open = f.oneof
		}
		pre := ind + "  "
		if open != 0 {
			pre += "  "
		}
		if f.optional {
			pre += "optional "
		}
		sb.WriteString(pre + f.text() + "\n")
	}
	if open != 0 {
		sb.WriteString(ind + "  }\n")
	}
	sb.WriteString(ind + "}\n")
	return sb.String()
}

func (f *pFile) text() string {
	var sb strings.Builder
	sb.WriteString("syntax = \"proto3\";\n")
	if f.pkg != "" {
		sb.WriteString("package " + f.pkg + ";\n")
	}
	for _, i := range f.imports {
		sb.WriteString(fmt.Sprintf("import %q;\n", i))
	}
	for _, e := range f.enums {
		sb.WriteString(enumText("", f.qual(e), e))
	}
	for _, m := range f.msgs {
		sb.WriteString(m.text(""))
	}
	for _, s := range f.svcs {
		sb.WriteString("service " + s.name + " {\n")
		for _, m := range s.methods {
			in, out := m.in, m.out
			if m.cs {
				in = "stream " + in
			}
			if m.ss {
				out = "stream " + out
			}
			sb.WriteString(fmt.Sprintf("  rpc %s(%s) returns (%s);\n", m.name, in, out))
		}
		sb.WriteString("}\n")
	}
	return sb.String()
}

// ---- names
func jsonDefault(s string) string {
	var b []byte
	up := false
	for i := 0; i < len(s); i++ {
		c := s[i]
		if c == '_' {
			up = true
			continue
		}
		if up && c >= 'a' && c <= 'z' {
			c -= 32
		}
		up = false
		b = append(b, c)
	}
	return string(b)
}
func entryName(field string) string {
	j := jsonDefault(field)
	if j == "" {
		return "Entry"
	}
	c := j[0]
	if c >= 'a' && c <= 'z' {
		c -= 32
	}
	return string(c) + j[1:] + "Entry"
}

// ---- generator-side symbol table and protoc-style resolution (used only to choose valid references)
type symKind int

const (
	symMsg  symKind = 1
	symEnum symKind = 2
	symPkg  symKind = 3
)

func (f *pFile) ownSyms(t map[string]symKind) {
	for _, m := range f.allMsgs() {
		t[m.full] = symMsg
		for _, e := range m.enums {
			t[m.full+"."+e] = symEnum
		}
		for _, fl := range m.fields {
			if fl.label == 2 {
				t[m.full+"."+entryName(fl.name)] = symMsg
			}
		}
	}
	for _, e := range f.enums {
		t[f.qual(e)] = symEnum
	}
	if f.pkg != "" {
		parts := strings.Split(f.pkg, ".")
		for i := 1; i <= len(parts); i++ {
			p := strings.Join(parts[:i], ".")
			if _, ok := t[p]; !ok {
				t[p] = symPkg
			}
		}
	}
}

func (s *pSchema) visible(f *pFile) map[string]symKind {
	t := map[string]symKind{}
	f.ownSyms(t)
	for _, g := range s.files {
		for _, i := range f.imports {
			if g.path == i {
				g.ownSyms(t)
			}
		}
	}
	return t
}

func resolveRef(tab map[string]symKind, scope, ref string) (string, symKind) {
	if strings.HasPrefix(ref, ".") {
		k := tab[ref[1:]]
		if k == symMsg || k == symEnum {
			return ref[1:], k
		}
		return "", 0
	}
	first := ref
	rest := ""
	if i := strings.IndexByte(ref, '.'); i >= 0 {
		first, rest = ref[:i], ref[i:]
	}
	sc := scope
	for {
		cand := first
		if sc != "" {
			cand = sc + "." + first
		}
		if k, ok := tab[cand]; ok {
			if rest == "" {
				if k == symMsg || k == symEnum {
					return cand, k
				}
			} else if k == symMsg || k == symPkg {
				k2 := tab[cand+rest]
				if k2 == symMsg || k2 == symEnum {
					return cand + rest, k2
				}
				return "", 0
			}
		}
		if sc == "" {
			return "", 0
		}
		if i := strings.LastIndexByte(sc, '.'); i >= 0 {
			sc = sc[:i]
		} else {
			sc = ""
		}
	}
}

// a way of writing `target` from `scope` that protoc resolves to it
func pickRef(r *rng, tab map[string]symKind, scope, target string) string {
	parts := strings.Split(target, ".")
	cands := []string{"." + target}
	for i := 0; i < len(parts); i++ {
		c := strings.Join(parts[i:], ".")
		if got, _ := resolveRef(tab, scope, c); got == target {
			cands = append(cands, c)
		}
	}
	// prefer the shorter spellings (they are the ones exercising scoping)
	if len(cands) > 1 && r.chance(85) {
		return cands[1+r.intn(len(cands)-1)]
	}
	return cands[r.intn(len(cands))]
}

// ---------------------------------------------------------------------------------------------- random schemas

var c15MsgNames = []string{"Item", "Node", "A", "B", "Inner", "Meta", "Req", "Resp", "C", "D", "Leaf", "Page", "User", "Box"}
var c15EnumNames = []string{"Kind", "Color", "E"}
var c15FieldNames = []string{"id", "name", "item", "items", "user_id", "user_name", "a_b_c", "x1", "x", "node", "meta", "kind",
	"fooBar", "foo_bar2", "Foo_baz", "val_", "a__b", "key", "value", "m", "next", "prev", "child_nodes", "by_id", "tags", "data_1", "z9_y"}
var c15JSONNames = []string{"ID", "Name", "@type", "weird name", "x-y", "UserId", "0", "k.v", "naïve", "j", "_u", "camelCase"}
var c15Pkgs = []string{"", "pa", "pb", "pa.pb", "pa.pc", "x.y.z"}

type c15Profile struct {
	allKinds, allMapKeys, collide, big bool
	unpacked                           bool // some repeated scalars carry [packed = false]
	longNames                          bool // field / JSON / message names of the boundary lengths c15NameLengths
}

// name-length classes: the lookup structures keep per-position / length bookkeeping (FieldNameMap.maxKeyLength)
var c15NameLengths = []int{1, 63, 64, 65, 72, 128, 300}

// identifier of exactly n bytes; style 0 field name (lower case, digits, some '_'), 1 message name (initial capital),
// 2 explicit json_name (any printable ASCII except quote and backslash)
func c15Ident(r *rng, n int, style int) string {
	b := make([]byte, n)
	for i := range b {
		switch {
		case style == 2:
			for {
				c := byte(32 + r.intn(95))
				if c != '"' && c != '\\' {
					b[i] = c
					break
				}
			}
		case i == 0 && style == 1:
			b[i] = byte('A' + r.intn(26))
		case i == 0:
			b[i] = byte('a' + r.intn(26))
		case style == 0 && i < n-1 && b[i-1] != '_' && r.chance(8):
			b[i] = '_'
		case r.chance(12):
			b[i] = byte('0' + r.intn(10))
		case style == 1 && r.chance(15):
			b[i] = byte('A' + r.intn(26))
		default:
			b[i] = byte('a' + r.intn(26))
		}
	}
	return string(b)
}

func genSchema(r *rng, prof c15Profile) *pSchema {
	s := &pSchema{}
	nfiles := 1 + r.intn(3)
	for i := 0; i < nfiles; i++ {
		f := &pFile{path: fmt.Sprintf("f%d.proto", i), pkg: c15Pkgs[r.intn(len(c15Pkgs))]}
		if prof.collide && i > 0 && r.chance(50) {
			f.pkg = c15Pkgs[1+r.intn(len(c15Pkgs)-1)]
		}
		s.files = append(s.files, f)
	}
	// imports: the main file imports a random subset (usually all); later files may import even later ones
	for i, f := range s.files {
		for j := i + 1; j < len(s.files); j++ {
			if (i == 0 && r.chance(85)) || (i > 0 && r.chance(50)) {
				f.imports = append(f.imports, s.files[j].path)
			}
		}
	}
	used := map[string]bool{} // full names of all symbols of all files
	var genMsg func(f *pFile, parent string, depth int, forced string) *p15Msg
	genMsg = func(f *pFile, parent string, depth int, forced string) *p15Msg {
		var name, full string
		for try := 0; ; try++ {
			name = c15MsgNames[r.intn(len(c15MsgNames))]
			if forced != "" && try == 0 {
				name = forced
			}
			if try > 6 {
				name = fmt.Sprintf("M%d", r.intn(1000))
			}
			if prof.longNames && forced == "" && r.chance(25) {
				name = c15Ident(r, c15NameLengths[r.intn(len(c15NameLengths))], 1)
				if strings.HasSuffix(name, "Entry") {
					name += "x"
				}
			}
			full = name
			if parent != "" {
				full = parent + "." + name
			}
			if !used[full] {
				break
			}
		}
		used[full] = true
		m := &p15Msg{name: name, full: full, file: f}
		if depth < 3 {
			n := 0
			switch {
			case r.chance(45):
				n = 0
			case r.chance(60):
				n = 1
			default:
				n = 2
			}
			if depth == 0 && prof.collide && n == 0 {
				n = 1
			}
			for i := 0; i < n; i++ {
				forcedName := ""
				if prof.collide && r.chance(60) {
					forcedName = "Item"
				}
				m.nested = append(m.nested, genMsg(f, full, depth+1, forcedName))
			}
		}
		if r.chance(25) {
			e := c15EnumNames[r.intn(len(c15EnumNames))]
			if !used[full+"."+e] {
				used[full+"."+e] = true
				m.enums = append(m.enums, e)
			}
		}
		return m
	}
	for _, f := range s.files {
		n := 1 + r.intn(4)
		for i := 0; i < n; i++ {
			f.msgs = append(f.msgs, genMsg(f, f.pkg, 0, ""))
		}
		if r.chance(40) {
			e := c15EnumNames[r.intn(len(c15EnumNames))]
			if !used[f.qual(e)] {
				used[f.qual(e)] = true
				f.enums = append(f.enums, e)
			}
		}
	}
	// fields (after every declaration exists, so that any visible type can be referenced)
	for _, f := range s.files {
		for _, m := range f.allMsgs() {
			genFields(r, s, f, m, used, prof)
		}
	}
	// services in the main file
	main := s.files[0]
	tab := s.visible(main)
	var visMsgs []string
	for n, k := range tab {
		if k == symMsg && !strings.HasSuffix(n, "Entry") {
			visMsgs = append(visMsgs, n)
		}
	}
	sort.Strings(visMsgs)
	nsvc := 1 + r.intn(3)
	mi := 0
	for i := 0; i < nsvc; i++ {
		sv := &pSvc{name: fmt.Sprintf("Svc%d", i)}
		nm := 1 + r.intn(3)
		if r.chance(10) {
			nm = 0
		}
		if i == nsvc-1 && nm == 0 && r.chance(70) {
			nm = 1
		}
		for j := 0; j < nm; j++ {
			mt := &pMethod{name: fmt.Sprintf("Call%d", mi), cs: r.chance(25), ss: r.chance(25)}
			if r.chance(20) {
				mt.name = []string{"Get", "Put", "Item", "call_x", "M"}[r.intn(5)] + fmt.Sprint(mi)
			}
			mi++
			mt.in = pickRef(r, tab, main.pkg, visMsgs[r.intn(len(visMsgs))])
			mt.out = pickRef(r, tab, main.pkg, visMsgs[r.intn(len(visMsgs))])
			sv.methods = append(sv.methods, mt)
		}
		main.svcs = append(main.svcs, sv)
	}
	return s
}

func genFields(r *rng, s *pSchema, f *pFile, m *p15Msg, used map[string]bool, prof c15Profile) {
	n := r.intn(7)
	if prof.allKinds {
		n = 15 + r.intn(20)
	}
	if prof.allMapKeys {
		n = 2 * len(c15MapKeyKinds)
	}
	if r.chance(5) {
		n = 0
	}
	keys := map[string]bool{}
	nums := map[int]bool{}
	next := 1
	for i := 0; i < n; i++ {
		fl := &pField{}
		// number: mostly increasing with holes, sometimes large
		switch {
		case r.chance(70):
			next += r.intn(3)
			fl.num = next
			next++
		case r.chance(50):
			fl.num = 1 + r.intn(300)
		case prof.big && r.chance(30):
			fl.num = []int{18999, 20000, 65535, 65536, 100000, 1 << 20}[r.intn(6)]
		default:
			fl.num = 1 + r.intn(5000)
		}
		if nums[fl.num] || (fl.num >= 19000 && fl.num <= 19999) {
			continue
		}
		// name / json name without key collisions across fields
		ok := false
		for try := 0; try < 8 && !ok; try++ {
			fl.name = c15FieldNames[r.intn(len(c15FieldNames))]
			if try > 4 || prof.allKinds || prof.allMapKeys {
				fl.name = fmt.Sprintf("%s_%d", c15FieldNames[r.intn(len(c15FieldNames))], r.intn(500))
			}
			long := (prof.longNames && r.chance(45)) || r.chance(2)
			if long && r.chance(70) {
				fl.name = c15Ident(r, c15NameLengths[r.intn(len(c15NameLengths))], 0)
			}
			fl.hasJSON = r.chance(20) || (long && r.chance(50))
			if fl.hasJSON {
				fl.json = c15JSONNames[r.intn(len(c15JSONNames))]
				if r.chance(20) {
					fl.json = fl.name // explicit but equal to the field name
				}
				if long && r.chance(75) {
					fl.json = c15Ident(r, c15NameLengths[r.intn(len(c15NameLengths))], 2)
				}
			} else {
				fl.json = jsonDefault(fl.name)
			}
			if fl.json == "" || keys[fl.name] || (fl.json != fl.name && keys[fl.json]) {
				continue
			}
			ok = true
		}
		if !ok {
			continue
		}
		// label
		switch {
		case prof.allMapKeys:
			fl.label = 2
		case r.chance(50):
			fl.label = 0
		case r.chance(60):
			fl.label = 1
		default:
			fl.label = 2
		}
		if fl.label == 2 {
			en := m.full + "." + entryName(fl.name)
			if used[en] {
				continue
			}
			used[en] = true
			fl.keykind = c15MapKeyKinds[r.intn(len(c15MapKeyKinds))]
			if prof.allMapKeys {
				fl.keykind = c15MapKeyKinds[i%len(c15MapKeyKinds)]
			}
		}
		keys[fl.name] = true
		keys[fl.json] = true
		nums[fl.num] = true
		m.fields = append(m.fields, fl)
	}
	// types are chosen once all map entries of this message are registered (they are symbols too)
	tab := s.visible(f)
	var msgs, enums []string
	for n, k := range tab {
		if k == symMsg && !strings.HasSuffix(n, "Entry") {
			msgs = append(msgs, n)
		} else if k == symEnum {
			enums = append(enums, n)
		}
	}
	sort.Strings(msgs)
	sort.Strings(enums)
	group := 0
	for i, fl := range m.fields {
		if fl.label == 0 {
			switch {
			case r.chance(12):
				group++
				fl.oneof = group
			case group > 0 && i > 0 && m.fields[i-1].oneof == group && r.chance(50):
				fl.oneof = group
			case r.chance(8):
				fl.optional = true
			}
		}
		c := r.intn(100)
		if prof.allKinds {
			c = 0
		}
		if prof.allMapKeys {
			c = (i / len(c15MapKeyKinds)) * 60
		}
		switch {
		case c < 45 || (c < 60 && len(enums) == 0):
			fl.kind = c15ScalarKinds[r.intn(len(c15ScalarKinds))]
			if prof.allKinds {
				fl.kind = c15ScalarKinds[i%len(c15ScalarKinds)]
			}
		case c < 60:
			fl.ref = pickRef(r, tab, m.full, enums[r.intn(len(enums))])
		default:
			target := msgs[r.intn(len(msgs))]
			if prof.collide && r.chance(60) {
				// prefer a type whose simple name occurs more than once
				var cl []string
				for _, x := range msgs {
					if strings.HasSuffix(x, ".Item") || x == "Item" {
						cl = append(cl, x)
					}
				}
				if len(cl) > 0 {
					target = cl[r.intn(len(cl))]
				}
			}
			if r.chance(10) {
				target = m.full // direct recursion
			}
			fl.ref = pickRef(r, tab, m.full, target)
		}
		// options other than packed, on any label (most interesting on repeated packable fields, with and without packed)
		if r.chance(22) || (fl.label == 1 && r.chance(25)) {
			fl.extra = append(fl.extra, []string{"deprecated = true", "deprecated = false"}[r.intn(2)])
		}
		if fl.label != 2 && (fl.kind == 3 || fl.kind == 4 || fl.kind == 6 || fl.kind == 16 || fl.kind == 18) && r.chance(30) {
			fl.extra = append(fl.extra, "jstype = "+[]string{"JS_STRING", "JS_NUMBER", "JS_NORMAL"}[r.intn(3)])
		}
		fl.extraFirst = r.bool()
		if fl.label == 1 {
			ek := fl.kind
			if fl.kind == 0 {
				if _, k := resolveRef(tab, m.full, fl.ref); k == symEnum {
					ek = 14
				} else {
					ek = 11
				}
			}
			if packableKind(ek) {
				switch {
				case r.chance(60):
				case r.chance(50) || !prof.unpacked:
					fl.packopt = 1
				default:
					fl.packopt = 2
				}
				if prof.allKinds {
					fl.packopt = (i / len(c15ScalarKinds)) % 3
					if fl.packopt == 2 && !prof.unpacked {
						fl.packopt = 0
					}
				}
			}
		}
	}
}

// hand-written scenarios (always emitted first)
func scenarioSchemas() []*pSchema {
	mk := func(path, pkg string) *pFile { return &pFile{path: path, pkg: pkg} }
	msg := func(f *pFile, parent *p15Msg, name string, fields ...*pField) *p15Msg {
		m := &p15Msg{name: name, file: f, fields: fields}
		if parent == nil {
			m.full = f.qual(name)
			f.msgs = append(f.msgs, m)
		} else {
			m.full = parent.full + "." + name
			parent.nested = append(parent.nested, m)
		}
		return m
	}
	sc := func(num int, name string, kind int) *pField {
		return &pField{num: num, name: name, json: jsonDefault(name), kind: kind}
	}
	rf := func(num int, name, ref string) *pField {
		return &pField{num: num, name: name, json: jsonDefault(name), ref: ref}
	}
	var out []*pSchema
	// S0: the same simple name in two scopes (minimal reproduction of the memo defect)
	{
		f := mk("s0.proto", "p")
		a := msg(f, nil, "A")
		msg(f, a, "Item", sc(1, "a", 5))
		a.fields = []*pField{rf(1, "item", "Item")}
		b := msg(f, nil, "B")
		msg(f, b, "Item", sc(2, "b", 9))
		b.fields = []*pField{rf(1, "item", "Item")}
		msg(f, nil, "Req", rf(1, "a", "A"), rf(2, "b", "B"))
		f.svcs = []*pSvc{{name: "S", methods: []*pMethod{{name: "M", in: "Req", out: "Req"}}}}
		out = append(out, &pSchema{files: []*pFile{f}})
	}
	// S1: tiny, no collision
	{
		f := mk("s1.proto", "")
		msg(f, nil, "Req", sc(1, "id", 3), sc(2, "user_name", 9))
		f.svcs = []*pSvc{{name: "S", methods: []*pMethod{{name: "M", in: "Req", out: "Req", ss: true}}}}
		out = append(out, &pSchema{files: []*pFile{f}})
	}
	// S2: synthetic XEntry names coincide across messages (map<string,int32> x / map<int32,M1> x)
	{
		f := mk("s2.proto", "q.r")
		msg(f, nil, "M1", &pField{num: 1, name: "x", json: "x", label: 2, keykind: 9, kind: 5})
		msg(f, nil, "M2", &pField{num: 1, name: "x", json: "x", label: 2, keykind: 5, ref: "M1"})
		msg(f, nil, "Req", rf(1, "m1", "M1"), rf(2, "m2", ".q.r.M2"))
		f.svcs = []*pSvc{{name: "S", methods: []*pMethod{{name: "M", in: "Req", out: "M2", cs: true}}}}
		out = append(out, &pSchema{files: []*pFile{f}})
	}
	// S3: the same simple name in two packages, through an import; request sees one, response the other
	{
		f := mk("s3.proto", "pa")
		g := mk("s3b.proto", "pb")
		f.imports = []string{"s3b.proto"}
		msg(g, nil, "Item", sc(7, "other", 8))
		msg(f, nil, "Item", sc(1, "mine", 1))
		msg(f, nil, "Req", rf(1, "x", "Item"), rf(2, "y", "pb.Item"), &pField{num: 3, name: "ys", json: "ys", label: 1, ref: ".pb.Item"})
		f.svcs = []*pSvc{{name: "S", methods: []*pMethod{{name: "M", in: "Req", out: "pb.Item"}, {name: "N", in: "pb.Item", out: "Item", cs: true, ss: true}}}}
		out = append(out, &pSchema{files: []*pFile{f, g}})
	}
	// S4: mutual recursion and explicit packed=false
	{
		f := mk("s4.proto", "")
		msg(f, nil, "Ping", rf(1, "pong", "Pong"), &pField{num: 2, name: "xs", json: "xs", label: 1, kind: 5, packopt: 2},
			&pField{num: 3, name: "ys", json: "YS", hasJSON: true, label: 1, kind: 17, packopt: 1})
		msg(f, nil, "Pong", &pField{num: 1, name: "pings", json: "pings", label: 1, ref: "Ping"}, rf(2, "self", "Pong"))
		f.svcs = []*pSvc{{name: "S1", methods: []*pMethod{{name: "A", in: "Ping", out: "Pong"}}}, {name: "S2", methods: []*pMethod{{name: "B", in: "Pong", out: "Ping"}}}}
		out = append(out, &pSchema{files: []*pFile{f}})
	}
	// S5: name-length classes: field names, explicit JSON names and a message name of 1 / 63 / 64 / 65 / 72 / 128 / 300 bytes
	{
		f := mk("s5.proto", "len")
		long := msg(f, nil, "M"+strings.Repeat("n", 64)) // 65-byte message name
		req := msg(f, nil, "Req", rf(1, "m", long.name))
		for i, n := range c15NameLengths {
			name := strings.Repeat(string(rune('a'+i)), n)
			req.fields = append(req.fields, sc(10+i, name, 5))
			js := strings.Repeat(string(rune('A'+i)), n)
			long.fields = append(long.fields, &pField{num: 1 + i, name: fmt.Sprintf("f%d", i), json: js, hasJSON: true, kind: 9})
		}
		long.fields = append(long.fields, sc(40, "q_"+strings.Repeat("w_", 40)+"z", 3)) // 83-byte name, 43-byte default JSON name
		f.svcs = []*pSvc{{name: "S", methods: []*pMethod{{name: "M", in: "Req", out: long.name}}}}
		out = append(out, &pSchema{files: []*pFile{f}})
	}
	// S6: repeated packable fields carrying options OTHER than packed, with and without an explicit packed
	{
		f := mk("s6.proto", "opt")
		f.enums = []string{"E"}
		rp := func(num int, name string, kind int, ref string, packopt int, hasJSON bool, extraFirst bool, extra ...string) *pField {
			fl := &pField{num: num, name: name, json: jsonDefault(name), label: 1, kind: kind, ref: ref, packopt: packopt, extra: extra, extraFirst: extraFirst}
			if hasJSON {
				fl.hasJSON, fl.json = true, "J"+name
			}
			return fl
		}
		msg(f, nil, "Req",
			rp(1, "plain", 5, "", 0, false, false),
			rp(2, "old", 5, "", 0, false, false, "deprecated = true"),
			rp(3, "old_f", 5, "", 0, false, false, "deprecated = false"),
			rp(4, "named", 17, "", 0, true, false),
			rp(5, "big", 3, "", 0, false, false, "jstype = JS_STRING"),
			rp(6, "big_u", 4, "", 0, true, true, "jstype = JS_NUMBER", "deprecated = true"),
			rp(7, "flags", 8, "", 0, false, false, "deprecated = true"),
			rp(8, "es", 0, "E", 0, false, true, "deprecated = true"),
			rp(9, "p_old", 13, "", 1, false, true, "deprecated = true"),
			rp(10, "u_old", 13, "", 2, false, false, "deprecated = true"),
			rp(11, "u_old2", 16, "", 2, true, true, "jstype = JS_NORMAL"),
			rp(12, "strs", 9, "", 0, false, false, "deprecated = true"),
			rp(13, "fl", 2, "", 0, true, false, "deprecated = true"),
			&pField{num: 14, name: "one", json: "one", kind: 5, extra: []string{"deprecated = true"}},
			&pField{num: 15, name: "m", json: "m", label: 2, keykind: 9, kind: 3, extra: []string{"deprecated = true"}})
		f.svcs = []*pSvc{{name: "S", methods: []*pMethod{{name: "M", in: "Req", out: "Req"}}}}
		out = append(out, &pSchema{files: []*pFile{f}})
	}
	return out
}

// ---------------------------------------------------------------------------------------------- emission of the abstract schema

func (s *pSchema) emit(t *[]string) {
	add := func(x ...string) { *t = append(*t, x...) }
	add(fi(len(s.files)))
	for _, f := range s.files {
		add(fs(f.path), fs(f.pkg), fi(len(f.imports)))
		for _, i := range f.imports {
			add(fs(i))
		}
		ms := f.allMsgs()
		nd := len(f.enums) + len(ms)
		for _, m := range ms {
			nd += len(m.enums)
		}
		add(fi(nd))
		for _, e := range f.enums {
			add(fi(1), fs(f.qual(e)))
		}
		for _, m := range ms {
			add(fi(0), fs(m.full), fi(len(m.fields)))
			for _, fl := range m.fields {
				add(fi(fl.num), fs(fl.name), fb(fl.hasJSON), fs(fl.json), fi(fl.label), fi(fl.packopt), fi(fl.keykind), fi(fl.kind), fs(fl.ref))
			}
			for _, e := range m.enums {
				add(fi(1), fs(m.full+"."+e))
			}
		}
		add(fi(len(f.svcs)))
		for _, sv := range f.svcs {
			add(fs(sv.name), fi(len(sv.methods)))
			for _, m := range sv.methods {
				add(fs(m.name), fs(m.in), fs(m.out), fb(m.cs), fb(m.ss))
			}
		}
	}
}

// ---------------------------------------------------------------------------------------------- reference side (triage)

func referenceParse(s *pSchema) (fd *desc.FileDescriptor, triage []string, ntri int) {
	contents := map[string]string{}
	for _, f := range s.files {
		contents[f.path] = f.text()
	}
	p := protoparse.Parser{ImportPaths: []string{""}, Accessor: protoparse.FileContentsFromMap(contents)}
	fds, err := p.ParseFiles(s.files[0].path)
	if err != nil {
		die("C15 generator produced a schema the reference parser rejects: %v\n%s", err, dumpTexts(s))
	}
	fd = fds[0]
	// all files reachable
	byPath := map[string]*desc.FileDescriptor{}
	var visit func(x *desc.FileDescriptor)
	visit = func(x *desc.FileDescriptor) {
		if byPath[x.GetName()] != nil {
			return
		}
		byPath[x.GetName()] = x
		for _, d := range x.GetDependencies() {
			visit(d)
		}
	}
	visit(fd)
	for fi_, f := range s.files {
		jf := byPath[f.path]
		if jf == nil {
			continue // not reachable from the main file: no reference for it
		}
		for _, m := range f.allMsgs() {
			jm := jf.FindMessage(m.full)
			if jm == nil {
				die("reference has no message %s", m.full)
			}
			for _, fl := range m.fields {
				jfl := jm.FindFieldByNumber(int32(fl.num))
				if jfl == nil {
					die("reference has no field %s.%d", m.full, fl.num)
				}
				if fl.kind == 0 {
					vf := jfl
					if jfl.IsMap() {
						vf = jfl.GetMapValueType()
					}
					fqn, k := "", 0
					if mt := vf.GetMessageType(); mt != nil {
						fqn, k = mt.GetFullyQualifiedName(), 1
					} else if et := vf.GetEnumType(); et != nil {
						fqn, k = et.GetFullyQualifiedName(), 2
					}
					triage = append(triage, fi(fi_), fs(m.full), fs(fl.ref), fs(fqn), fi(k))
					ntri++
				}
			}
		}
	}
	for _, sv := range s.files[0].svcs {
		jsv := fd.FindService(s.files[0].qual(sv.name))
		for _, m := range sv.methods {
			jm := jsv.FindMethodByName(m.name)
			triage = append(triage, fi(0), fs(s.files[0].pkg), fs(m.in), fs(jm.GetInputType().GetFullyQualifiedName()), fi(1))
			triage = append(triage, fi(0), fs(s.files[0].pkg), fs(m.out), fs(jm.GetOutputType().GetFullyQualifiedName()), fi(1))
			ntri += 2
		}
	}
	return
}

// attributes of every declared field as protobuf-go (protodesc) sees them: msg num json kind list map packed
func referenceFields(s *pSchema, fd *desc.FileDescriptor) (out []string, n int) {
	files, err := protodesc.NewFiles(desc.ToFileDescriptorSet(fd))
	if err != nil {
		die("protodesc: %v", err)
	}
	for _, f := range s.files {
		for _, m := range f.allMsgs() {
			pd, err := files.FindDescriptorByName(protoreflect.FullName(m.full))
			if err != nil {
				continue
			}
			pm := pd.(protoreflect.MessageDescriptor)
			for _, fl := range m.fields {
				pf := pm.Fields().ByNumber(protoreflect.FieldNumber(fl.num))
				kind := int(pf.Kind())
				if pf.IsMap() {
					kind = 11
				}
				out = append(out, fs(m.full), fi(fl.num), fs(pf.JSONName()), fi(kind), fb(pf.IsList()), fb(pf.IsMap()), fb(pf.IsPacked()))
				n++
			}
		}
	}
	return
}

func dumpTexts(s *pSchema) string {
	var sb strings.Builder
	for _, f := range s.files {
		sb.WriteString("// ---- " + f.path + "\n" + f.text())
	}
	return sb.String()
}

// ---------------------------------------------------------------------------------------------- implementation dump

type c15Dump struct {
	nodes []*proto.MessageDescriptor
	index map[*proto.MessageDescriptor]int
}

func (d *c15Dump) node(m *proto.MessageDescriptor) int {
	if m == nil {
		return -1
	}
	if i, ok := d.index[m]; ok {
		return i
	}
	d.index[m] = len(d.nodes)
	d.nodes = append(d.nodes, m)
	return len(d.nodes) - 1
}

func byNumber(m *proto.MessageDescriptor, n int32) (f *proto.FieldDescriptor, panicked bool) {
	ok, _ := noPanic(func() { f = m.ByNumber(proto.FieldNumber(n)) })
	return f, !ok
}

func keyVariants(r *rng, k string) []string {
	out := []string{k, k + "a", k + "_", k + "\x00", strings.ToUpper(k), strings.ToLower(k)}
	if len(k) > 0 {
		c := k[0]
		if c >= 'a' && c <= 'z' {
			out = append(out, string(c-32)+k[1:])
		} else if c >= 'A' && c <= 'Z' {
			out = append(out, string(c+32)+k[1:])
		}
		if len(k) <= 8 {
			for i := 0; i < len(k); i++ {
				out = append(out, k[:i])
			}
		} else {
			out = append(out, k[:len(k)-1], k[:1+r.intn(len(k)-1)], k[:1+r.intn(len(k)-1)])
		}
		out = append(out, k[1:], "_"+k)
	}
	return out
}

func boundaryNumbers() []int32 {
	return []int32{18999, 19000, 19999, 20000, 65535, 65536, 1 << 20, 1<<20 + 1, 1<<29 - 1, 1 << 29, math.MaxInt32 - 1, math.MaxInt32}
}

// when set, implDump obtains the descriptor through this function instead of a fresh-map NewDesccriptorFromContent
var c15ParseHook func(s *pSchema, mode meta.ParseServiceMode) (*proto.ServiceDescriptor, error)

// dump the descriptor of one parse; what: 1 graph only, 2 + number probes, 3 + key probes
func implDump(r *rng, s *pSchema, mode meta.ParseServiceMode, what int, allNames []string) (toks []string, stats map[string]int) {
	stats = map[string]int{}
	add := func(x ...string) { toks = append(toks, x...) }
	includes := map[string]string{}
	for _, f := range s.files[1:] {
		includes[f.path] = f.text()
	}
	var svc *proto.ServiceDescriptor
	var err error
	ok, _ := noPanic(func() {
		if c15ParseHook != nil {
			// harness/c15c.go: the call goes through another entry point / reuses the caller's includes map
			svc, err = c15ParseHook(s, mode)
			return
		}
		svc, err = proto.Options{ParseServiceMode: mode}.NewDesccriptorFromContent(context.Background(), s.files[0].path, s.files[0].text(), includes)
	})
	if !ok || err != nil || svc == nil {
		e := 1
		if !ok {
			e = 2
		}
		add(fi(e), fs(""), fs(""), fi(0), fi(0), fi(0))
		return
	}
	d := &c15Dump{index: map[*proto.MessageDescriptor]int{}}
	add(fi(0), fs(svc.Name()), fs(svc.PackageName()))
	var names []string
	for n := range svc.Methods() {
		names = append(names, n)
	}
	sort.Strings(names)
	add(fi(len(names)))
	for _, n := range names {
		m := svc.Methods()[n]
		in, out := -1, -1
		if m.Input() != nil {
			in = d.node(m.Input().Message())
		}
		if m.Output() != nil {
			out = d.node(m.Output().Message())
		}
		add(fs(m.Name()), fb(m.IsClientStreaming()), fb(m.IsServerStreaming()), fi(in), fi(out), fb(svc.LookupMethodByName(n) == m && m.Name() == n))
	}
	// method-name probes: every declared method name of every service, variants, empty
	var mp []string
	seen := map[string]bool{}
	for _, sv := range s.files[0].svcs {
		for _, m := range sv.methods {
			for _, k := range []string{m.name, m.name + "x", strings.ToLower(m.name), m.name[:len(m.name)-1], sv.name} {
				if !seen[k] {
					seen[k] = true
					mp = append(mp, k)
				}
			}
		}
	}
	mp = append(mp, "")
	add(fi(len(mp)))
	for _, k := range mp {
		add(fs(k), fb(svc.LookupMethodByName(k) != nil))
	}
	// nodes, discovered breadth first by pointer
	var body []string
	for i := 0; i < len(d.nodes); i++ {
		md := d.nodes[i]
		hi := md.FieldsCount() + 70
		if hi > 1<<21 {
			hi = 1 << 21
		}
		var fields []*proto.FieldDescriptor
		var probes []int
		for n := 0; n <= hi; n++ {
			if f, _ := byNumber(md, int32(n)); f != nil {
				fields = append(fields, f)
				probes = append(probes, n)
			}
		}
		stats["fields"] += len(fields)
		body = append(body, fi(len(fields)))
		for j, f := range fields {
			t := f.Type()
			keyty, elemty, tmsg, emsg := 0, 0, -1, -1
			packed := false
			if t != nil {
				tmsg = d.node(t.Message())
				packed = t.IsPacked()
				if f.IsMap() {
					keyty = int(f.MapKey().Type())
					stats[fmt.Sprintf("mapkey%d", keyty)]++
				}
				if (f.IsMap() || f.IsList()) && t.Elem() != nil {
					elemty = int(t.Elem().Type())
					emsg = d.node(t.Elem().Message())
				}
			}
			ty := 0
			if t != nil {
				ty = int(t.Type())
			}
			stats[fmt.Sprintf("kind%d", int(f.Kind()))]++
			body = append(body, fi(probes[j]), fi(int(f.Number())), fs(f.Name()), fs(f.JSONName()), fi(int(f.Kind())), fi(ty),
				fb(f.IsList()), fb(f.IsMap()), fb(packed), fi(keyty), fi(elemty), fi(tmsg), fi(emsg))
		}
		// number probes
		if what == 2 {
			set := map[int32]bool{}
			var ps []int32
			addp := func(n int32) {
				if n >= 0 && !set[n] {
					set[n] = true
					ps = append(ps, n)
				}
			}
			lim := hi
			if lim > 48 {
				lim = 48
			}
			for n := 0; n <= lim; n++ {
				addp(int32(n))
			}
			for _, p := range probes {
				addp(int32(p - 1))
				addp(int32(p))
				addp(int32(p + 1))
			}
			for n := hi - 72; n <= hi+2; n += 1 + 6*((n+hi)%2) {
				addp(int32(n))
			}
			for _, n := range boundaryNumbers() {
				addp(n)
			}
			body = append(body, fi(len(ps)))
			for _, n := range ps {
				f, pan := byNumber(md, n)
				res := -1
				if pan {
					res = -2
				} else if f != nil {
					res = int(f.Number())
				}
				body = append(body, fi(int(n)), fi(res))
			}
			stats["numprobes"] += len(ps)
		} else {
			body = append(body, fi(0))
		}
		// key probes
		if what == 3 {
			set := map[string]bool{}
			var ks []string
			addk := func(k string) {
				if !set[k] {
					set[k] = true
					ks = append(ks, k)
				}
			}
			addk("")
			for _, f := range fields {
				for _, k := range keyVariants(r, f.Name()) {
					addk(k)
				}
				for _, k := range keyVariants(r, f.JSONName()) {
					addk(k)
				}
			}
			for i := 0; i < 12 && len(allNames) > 0; i++ {
				addk(allNames[r.intn(len(allNames))])
			}
			body = append(body, fi(len(ks)))
			for _, k := range ks {
				res := func(get func(string) *proto.FieldDescriptor) int {
					var f *proto.FieldDescriptor
					ok, _ := noPanic(func() { f = get(k) })
					if !ok {
						return -2
					}
					if f == nil {
						return -1
					}
					if g, _ := byNumber(md, int32(f.Number())); g != f {
						return -3
					}
					return int(f.Number())
				}
				body = append(body, fs(k), fi(res(md.ByName)), fi(res(md.ByJSONName)))
			}
			stats["keyprobes"] += len(ks)
		} else {
			body = append(body, fi(0))
		}
	}
	add(fi(len(d.nodes)))
	add(body...)
	stats["nodes"] += len(d.nodes)
	return
}

// ---------------------------------------------------------------------------------------------- driver

func genC15(r *rng, n int) {
	// FieldIDMap driven directly (1504)
	for i := 0; i < 60+n/2; i++ {
		c15FieldIDMap(r.fork())
	}
	schemas := scenarioSchemas()
	profiles := []c15Profile{{allKinds: true}, {allKinds: true, unpacked: true}, {allMapKeys: true}, {collide: true}, {collide: true, big: true}, {big: true}, {longNames: true}, {longNames: true, collide: true}}
	for i := 0; i < n; i++ {
		var prof c15Profile
		switch {
		case i < len(profiles):
			prof = profiles[i]
		case r.chance(30):
			prof = c15Profile{collide: true}
		case r.chance(8):
			prof = c15Profile{allKinds: true}
		case r.chance(8):
			prof = c15Profile{allMapKeys: true}
		case r.chance(15):
			prof = c15Profile{big: true}
		}
		if i >= len(profiles) && r.chance(12) {
			prof.unpacked = true
		}
		if i >= len(profiles) && r.chance(15) {
			prof.longNames = true
		}
		schemas = append(schemas, genSchema(r.fork(), prof))
	}
	for si, s := range schemas {
		if os.Getenv("C15_DUMP") != "" && si < 14 {
			fmt.Fprintf(os.Stderr, "==== schema %d\n%s", si, dumpTexts(s))
		}
		var sch []string
		s.emit(&sch)
		rfd, triage, ntri := referenceParse(s)
		tri2, ntri2 := referenceFields(s, rfd)
		var allNames []string
		for _, f := range s.files {
			for _, m := range f.allMsgs() {
				for _, fl := range m.fields {
					allNames = append(allNames, fl.name, fl.json)
				}
			}
		}
		for _, mode := range []meta.ParseServiceMode{meta.LastServiceOnly, meta.FirstServiceOnly, meta.CombineServices} {
			whats := []int{1}
			if int(mode) == si%3 {
				whats = []int{1, 2, 3}
			}
			for _, what := range whats {
				toks := append([]string{}, sch...)
				toks = append(toks, fi(int(mode)), fi(ntri))
				toks = append(toks, triage...)
				toks = append(toks, fi(ntri2))
				toks = append(toks, tri2...)
				impl, _ := implDump(r.fork(), s, mode, what, allNames)
				toks = append(toks, impl...)
				out.emit(1500+what, toks...)
			}
		}
		// boundary numbers incl. negative ones on the first request message (1505)
		c15Boundary(s)
	}
}

func c15FieldIDMap(r *rng) {
	var m util.FieldIDMap
	vals := make([]int, 64)
	ptr := func(i int) unsafe.Pointer { return unsafe.Pointer(&vals[i]) }
	idx := func(p unsafe.Pointer) int {
		if p == nil {
			return -1
		}
		return int((uintptr(p) - uintptr(unsafe.Pointer(&vals[0]))) / unsafe.Sizeof(vals[0]))
	}
	ns := r.intn(12)
	var toks []string
	toks = append(toks, fi(ns))
	maxid := 0
	for i := 0; i < ns; i++ {
		id := r.intn(40)
		switch r.intn(8) {
		case 0:
			id = 0
		case 1:
			id = 200 + r.intn(4000)
		case 2:
			id = []int{255, 256, 257, 65535, 65536, 1 << 20}[r.intn(6)]
		}
		if id > maxid {
			maxid = id
		}
		v := r.intn(64)
		m.Set(int32(id), ptr(v))
		toks = append(toks, fi(id), fi(v))
	}
	set := map[int]bool{}
	var probes []int
	addp := func(n int) {
		if !set[n] {
			set[n] = true
			probes = append(probes, n)
		}
	}
	lim := maxid + 70
	if lim > 400 {
		lim = 400
	}
	for n := 0; n <= lim; n++ {
		addp(n)
	}
	for n := maxid - 3; n <= maxid+70; n++ {
		if n >= 0 {
			addp(n)
		}
	}
	for _, n := range []int{math.MaxInt32, 1 << 29, 65535, 65536, 1<<20 + 1} {
		addp(n)
	}
	if r.chance(25) { // negative ids: Get indexes the slice with them (recorded finding)
		for _, n := range []int{-1, -2, math.MinInt32} {
			addp(n)
		}
	}
	toks = append(toks, fi(len(probes)))
	for _, n := range probes {
		var p unsafe.Pointer
		ok, _ := noPanic(func() { p = m.Get(int32(n)) })
		res := -2
		if ok {
			res = idx(p)
		}
		toks = append(toks, fi(n), fi(res))
	}
	toks = append(toks, fi(m.Size()))
	out.emit(1504, toks...)
}

func c15Boundary(s *pSchema) {
	includes := map[string]string{}
	for _, f := range s.files[1:] {
		includes[f.path] = f.text()
	}
	svc, err := proto.NewDescritorFromContent(context.Background(), s.files[0].path, s.files[0].text(), includes)
	if err != nil || svc == nil {
		return
	}
	// the input of the FIRST method of the LAST service is the very first message the parser elaborates
	// (empty memo), so the descriptor is the declared one whatever the memo does; the declared numbers are
	// read back through the reference parser (jhump), not through dynamicgo
	fd, _, _ := referenceParse(s)
	svcs := fd.GetServices()
	if len(svcs) == 0 || len(svcs[len(svcs)-1].GetMethods()) == 0 {
		return
	}
	jm := svcs[len(svcs)-1].GetMethods()[0]
	in := jm.GetInputType()
	mdesc := svc.LookupMethodByName(jm.GetName())
	if mdesc == nil || mdesc.Input() == nil {
		return
	}
	md := mdesc.Input().Message()
	var toks []string
	toks = append(toks, fi(len(in.GetFields())))
	for _, f := range in.GetFields() {
		toks = append(toks, fi(int(f.GetNumber())))
	}
	// two cases: the non-negative boundary numbers, and the negative ones (Get indexes the slice with them)
	for _, probes := range [][]int32{append([]int32{0}, boundaryNumbers()...), {-1, -2, -128, math.MinInt32, math.MinInt32 + 1}} {
		t := append([]string{}, toks...)
		t = append(t, fi(len(probes)))
		for _, n := range probes {
			f, pan := byNumber(md, n)
			res := -1
			if pan {
				res = -2
			} else if f != nil {
				res = int(f.Number())
			}
			t = append(t, fi(int(n)), fi(res))
		}
		out.emit(1505, t...)
	}
}
