//go:build verif

package main

import (
	"bytes"
	"context"
	"encoding/binary"
	"encoding/json"
	"fmt"
	"net/textproto"
	"sort"
	"strings"

	"github.com/cloudwego/dynamicgo/conv"
	"github.com/cloudwego/dynamicgo/conv/j2t"
	"github.com/cloudwego/dynamicgo/conv/j2tportable"
	"github.com/cloudwego/dynamicgo/conv/t2j"
	dhttp "github.com/cloudwego/dynamicgo/http"
	"github.com/cloudwego/dynamicgo/thrift"
	_ "github.com/cloudwego/dynamicgo/thrift/annotation"
	"github.com/cloudwego/dynamicgo/thrift/generic"
)

// C16: requiredness / defaults / unknown-field options through native j2t (1601), portable j2t (1602), t2j (1603) and
// generic MarshalTo (1604). The abstract struct table + a presence pattern (absent / null / present per field, unknown
// members, nested structs) are the input; JSON text and Thrift bytes of the input are built here from the pattern.

func init() { generators["C16"] = genC16 }

type s16 struct {
	Name   string
	Fields []*f16
	idx    int
}

// tyEnum: the field is declared with the IDL enum type Color; its Thrift type is I32, or I64 under ParseEnumAsInt64
const tyEnum = thrift.Type(200)

type f16 struct {
	ID      int
	Req     int // 0 default, 1 required, 2 optional
	Ty      thrift.Type
	HTTP    string // header the field is mapped to by api.header ("" = none)
	EnumDef bool // the default is an enum identifier (Color.BLUE = 3): its encoding follows the field's own type
	Sub     *s16
	HasDef  bool
	DefIDL  string // IDL literal
	DefBin  []byte // thrift binary of the default
	DefJSON string
	Name    string
	Alias   string
}

var c16IDs = []int{1, 63, 64, 65, 255, 256, 257, 4000}
var c16Scalars = []thrift.Type{thrift.BOOL, thrift.I32, thrift.I64, thrift.STRING, thrift.LIST, thrift.MAP, thrift.I16, thrift.I08, tyEnum, thrift.I64}

type g16 struct {
	r       *rng
	structs []*s16
}

func be32(v int32) []byte { b := make([]byte, 4); binary.BigEndian.PutUint32(b, uint32(v)); return b }
func be64(v int64) []byte { b := make([]byte, 8); binary.BigEndian.PutUint64(b, uint64(v)); return b }
func tstr(s string) []byte { return append(be32(int32(len(s))), s...) }

func (g *g16) genStruct(depth int) *s16 {
	r := g.r
	s := &s16{Name: fmt.Sprintf("S%d", len(g.structs)+1), idx: len(g.structs)}
	g.structs = append(g.structs, s)
	n := 1 + r.intn(6)
	ids := append([]int(nil), c16IDs...)
	for i := len(ids) - 1; i > 0; i-- {
		j := r.intn(i + 1)
		ids[i], ids[j] = ids[j], ids[i]
	}
	for i := 0; i < n; i++ {
		id := ids[i]
		if r.chance(15) {
			id = 2 + r.intn(60)
			dup := false
			for _, f := range s.Fields {
				dup = dup || f.ID == id
			}
			if dup {
				id = ids[i]
			}
		}
		f := &f16{ID: id, Req: r.intn(3), Name: fmt.Sprintf("f%d", id)}
		f.Alias = f.Name
		if r.chance(30) {
			f.Alias = fmt.Sprintf("a%d", id)
		}
		if depth < 2 && r.chance(25) {
			f.Ty = thrift.STRUCT
			f.Sub = g.genStruct(depth + 1)
		} else {
			f.Ty = c16Scalars[r.intn(len(c16Scalars))]
			if r.chance(50) {
				switch f.Ty {
				case thrift.BOOL:
					f.HasDef, f.DefIDL, f.DefBin, f.DefJSON = true, "true", []byte{1}, "true"
				case thrift.I32:
					f.HasDef, f.DefIDL, f.DefBin, f.DefJSON = true, "7", be32(7), "7"
				case thrift.I64:
					f.HasDef, f.DefIDL, f.DefBin, f.DefJSON = true, "-9", be64(-9), "-9"
				case thrift.STRING:
					f.HasDef, f.DefIDL, f.DefBin, f.DefJSON = true, "\"dflt\"", tstr("dflt"), "\"dflt\""
				case thrift.I16:
					f.HasDef, f.DefIDL, f.DefBin, f.DefJSON = true, "300", []byte{1, 44}, "300"
				case thrift.I08:
					f.HasDef, f.DefIDL, f.DefBin, f.DefJSON = true, "5", []byte{5}, "5"
				case tyEnum:
					f.HasDef, f.EnumDef, f.DefIDL, f.DefJSON = true, true, "Color.GREEN", "2"
				}
				// a declared default that IS the zero value (0, "", false, the enum member 0): it is still a parsed
				// default, so the "optional field carrying a parsed default" clause applies to it as to any other
				if r.chance(40) {
					switch f.Ty {
					case thrift.BOOL:
						f.DefIDL, f.DefBin, f.DefJSON = "false", []byte{0}, "false"
					case thrift.I32:
						f.DefIDL, f.DefBin, f.DefJSON = "0", be32(0), "0"
					case thrift.I64:
						f.DefIDL, f.DefBin, f.DefJSON = "0", be64(0), "0"
					case thrift.STRING:
						f.DefIDL, f.DefBin, f.DefJSON = "\"\"", tstr(""), "\"\""
					case thrift.I16:
						f.DefIDL, f.DefBin, f.DefJSON = "0", []byte{0, 0}, "0"
					case thrift.I08:
						f.DefIDL, f.DefBin, f.DefJSON = "0", []byte{0}, "0"
					case tyEnum:
						f.DefIDL, f.DefJSON = "Color.ZERO", "0"
					}
				}
				// an enum identifier as the default of an integer field (legal IDL): `2: i64 L = Color.BLUE`
				if (f.Ty == thrift.I32 || f.Ty == thrift.I64 || f.Ty == thrift.I16 || f.Ty == thrift.I08) && r.chance(40) {
					f.HasDef, f.EnumDef, f.DefIDL, f.DefJSON = true, true, "Color.BLUE", "3"
					if r.chance(30) {
						f.DefIDL, f.DefJSON = "Color.ZERO", "0"
					}
				}
			}
		}
		switch f.Ty {
		case thrift.BOOL, thrift.I32, thrift.I64, thrift.STRING, thrift.I16, thrift.I08:
			if r.chance(30) {
				f.HTTP = fmt.Sprintf("h%dx%d", s.idx, f.ID)
			}
		}
		s.Fields = append(s.Fields, f)
	}
	return s
}

func (s *s16) hasHTTP() bool {
	for _, f := range s.Fields {
		if f.HTTP != "" || (f.Sub != nil && f.Sub.hasHTTP()) {
			return true
		}
	}
	return false
}

// the Thrift type of the field under the parse options pb (bit 2 = ParseEnumAsInt64)
func (f *f16) tyFor(pb int) thrift.Type {
	if f.Ty == tyEnum {
		if pb&4 != 0 {
			return thrift.I64
		}
		return thrift.I32
	}
	return f.Ty
}

func intBin(t thrift.Type, v int64) []byte {
	switch t {
	case thrift.I08:
		return []byte{byte(v)}
	case thrift.I16:
		return []byte{byte(v >> 8), byte(v)}
	case thrift.I32:
		return be32(int32(v))
	}
	return be64(v)
}

func (f *f16) defBinFor(pb int) []byte {
	if f.EnumDef {
		v := int64(3)
		if f.DefIDL == "Color.GREEN" {
			v = 2
		} else if f.DefIDL == "Color.ZERO" {
			v = 0
		}
		return intBin(f.tyFor(pb), v)
	}
	return f.DefBin
}

// the declared default as an abstract literal: kind (0 none, 1 integer, 3 string, 4 bool), integer value, string bytes
func (f *f16) litFields() []string {
	if !f.HasDef {
		return []string{fi(0), fi(0), fx(nil)}
	}
	switch {
	case f.EnumDef:
		v := map[string]int{"Color.ZERO": 0, "Color.GREEN": 2, "Color.BLUE": 3}[f.DefIDL]
		return []string{fi(1), fi(v), fx(nil)}
	case f.Ty == thrift.BOOL:
		if f.DefIDL == "true" {
			return []string{fi(4), fi(1), fx(nil)}
		}
		return []string{fi(4), fi(0), fx(nil)}
	case f.Ty == thrift.STRING:
		return []string{fi(3), fi(0), fs(strings.Trim(f.DefIDL, "\""))}
	}
	var v int64
	fmt.Sscan(f.DefIDL, &v)
	return []string{fi(1), fn(v), fx(nil)}
}

func (s *s16) hasEnum() bool {
	for _, f := range s.Fields {
		if f.Ty == tyEnum || f.EnumDef || (f.Sub != nil && f.Sub.hasEnum()) {
			return true
		}
	}
	return false
}

func (f *f16) idlType() string {
	switch f.Ty {
	case thrift.BOOL:
		return "bool"
	case thrift.I32:
		return "i32"
	case thrift.I64:
		return "i64"
	case thrift.STRING:
		return "string"
	case thrift.LIST:
		return "list<i32>"
	case thrift.MAP:
		return "map<string,i32>"
	case thrift.I16:
		return "i16"
	case thrift.I08:
		return "byte"
	case tyEnum:
		return "Color"
	}
	return f.Sub.Name
}

func (g *g16) idl(root *s16) string {
	var sb strings.Builder
	sb.WriteString("namespace go verif\nenum Color { ZERO = 0, RED = 1, GREEN = 2, BLUE = 3 }\n")
	for i := len(g.structs) - 1; i >= 0; i-- {
		s := g.structs[i]
		sb.WriteString("struct " + s.Name + " {\n")
		for _, f := range s.Fields {
			req := []string{"", "required ", "optional "}[f.Req]
			def := ""
			if f.HasDef {
				def = " = " + f.DefIDL
			}
			var anns []string
			if f.Alias != f.Name {
				anns = append(anns, fmt.Sprintf("api.key = \"%s\"", f.Alias))
			}
			if f.HTTP != "" {
				anns = append(anns, fmt.Sprintf("api.header = \"%s\"", f.HTTP))
			}
			ann := ""
			if len(anns) > 0 {
				ann = " (" + strings.Join(anns, ", ") + ")"
			}
			sb.WriteString(fmt.Sprintf("  %d: %s%s %s%s%s\n", f.ID, req, f.idlType(), f.Name, def, ann))
		}
		sb.WriteString("}\n")
	}
	sb.WriteString("service Svc { " + root.Name + " M(1: " + root.Name + " req) }\n")
	return sb.String()
}

func (g *g16) defsFields(pb int) []string {
	out := []string{fi(len(g.structs))}
	for _, s := range g.structs {
		out = append(out, fi(len(s.Fields)))
		for _, f := range s.Fields {
			sub := -1
			if f.Sub != nil {
				sub = f.Sub.idx
			}
			out = append(out, fi(f.ID), fi(f.Req), fi(int(f.tyFor(pb))), fi(sub), fb(f.HasDef), fx(f.defBinFor(pb)), fs(f.DefJSON), fs(f.Name), fs(f.Alias))
			out = append(out, f.litFields()...)
			out = append(out, fs(f.HTTP))
		}
	}
	return out
}

// one member of an input struct instance
type m16 struct {
	F     *f16 // nil = unknown member
	Ty    thrift.Type // the member's Thrift type under the parse options of the case
	State int  // 1 null, 2 scalar value, 3 struct
	Bin   []byte
	JSON  string
	Kids  []*m16
}

func (g *g16) scalarValue(t thrift.Type) (bin []byte, js string) {
	r := g.r
	switch t {
	case thrift.BOOL:
		if r.bool() {
			return []byte{1}, "true"
		}
		return []byte{0}, "false"
	case thrift.I32:
		v := int32(r.intn(5)) // includes 0: a present zero must stay
		return be32(v), fmt.Sprint(v)
	case thrift.I16:
		v := int64(r.intn(3)) * 150
		return intBin(t, v), fmt.Sprint(v)
	case thrift.I08:
		v := int64(r.intn(4))
		return intBin(t, v), fmt.Sprint(v)
	case thrift.I64:
		v := int64(r.intn(3)) * 1234567890123
		return be64(v), fmt.Sprint(v)
	case thrift.STRING:
		s := []string{"", "s", "dflt", "x y"}[r.intn(4)]
		return tstr(s), "\"" + s + "\""
	case thrift.LIST:
		if r.bool() {
			return append([]byte{8}, be32(0)...), "[]"
		}
		b := append([]byte{8}, be32(2)...)
		return append(append(b, be32(3)...), be32(4)...), "[3,4]"
	case thrift.MAP:
		if r.bool() {
			return append([]byte{11, 8}, be32(0)...), "{}"
		}
		b := append([]byte{11, 8}, be32(1)...)
		return append(append(b, tstr("k")...), be32(1)...), "{\"k\":1}"
	}
	return nil, ""
}

// mode: 0 random mix, 1 all absent, 2 all present, 3 all null
func (g *g16) genMembers(s *s16, depth int, mode int, allowNull bool, pb int) []*m16 {
	r := g.r
	var ms []*m16
	for _, f := range s.Fields {
		st := r.intn(3) // 0 absent, 1 null, 2 present
		switch mode {
		case 1:
			st = 0
		case 2:
			st = 2
		case 3:
			st = 1
		}
		if st == 1 && !allowNull {
			st = r.intn(2) * 2
		}
		switch st {
		case 0:
			continue
		case 1:
			ms = append(ms, &m16{F: f, State: 1})
		default:
			if f.Ty == thrift.STRUCT {
				ms = append(ms, &m16{F: f, Ty: thrift.STRUCT, State: 3, Kids: g.genMembers(f.Sub, depth+1, mode, allowNull, pb)})
			} else {
				var b []byte
				var j string
				if f.Ty == tyEnum {
					v := int64(1 + r.intn(3))
					b, j = intBin(f.tyFor(pb), v), fmt.Sprint(v)
				} else {
					b, j = g.scalarValue(f.Ty)
				}
				ms = append(ms, &m16{F: f, Ty: f.tyFor(pb), State: 2, Bin: b, JSON: j})
			}
		}
	}
	if mode == 0 && r.chance(20) {
		ms = append(ms, &m16{F: nil, State: 2, Bin: be32(1), JSON: []string{"1", "{\"a\":[1,{\"b\":null}]}", "\"u\"", "[1,2]"}[r.intn(4)]})
	}
	for i := len(ms) - 1; i > 0; i-- {
		j := r.intn(i + 1)
		ms[i], ms[j] = ms[j], ms[i]
	}
	return ms
}

func (g *g16) membersFields(ms []*m16) []string {
	out := []string{fi(len(ms))}
	for _, m := range ms {
		switch {
		case m.F == nil:
			out = append(out, fi(-1), fi(2), fx(m.Bin), fs(m.JSON))
		case m.State == 1:
			out = append(out, fi(m.F.ID), fi(1))
		case m.State == 2:
			out = append(out, fi(m.F.ID), fi(2), fx(m.Bin), fs(m.JSON))
		default:
			out = append(out, fi(m.F.ID), fi(3))
			out = append(out, g.membersFields(m.Kids)...)
		}
	}
	return out
}

func (g *g16) jsonOf(ms []*m16) string {
	var parts []string
	for _, m := range ms {
		key := "zz_unknown"
		if m.F != nil {
			key = m.F.Alias // default MapFieldWay: keys are mapped by alias only
		}
		val := m.JSON
		if m.State == 1 {
			val = "null"
		} else if m.State == 3 {
			val = g.jsonOf(m.Kids)
		}
		sp := ""
		if g.r.chance(20) {
			sp = " "
		}
		parts = append(parts, fmt.Sprintf("%s\"%s\"%s:%s%s", sp, key, sp, sp, val))
	}
	return "{" + strings.Join(parts, ",") + "}"
}

func thriftOf(ms []*m16) []byte {
	var b []byte
	for _, m := range ms {
		switch {
		case m.F == nil:
			b = append(b, byte(thrift.I32), 0x27, 0x0f) // id 9999: never declared
			b = append(b, m.Bin...)
		case m.State == 2:
			b = append(b, byte(m.Ty), byte(m.F.ID>>8), byte(m.F.ID))
			b = append(b, m.Bin...)
		case m.State == 3:
			b = append(b, byte(thrift.STRUCT), byte(m.F.ID>>8), byte(m.F.ID))
			b = append(b, thriftOf(m.Kids)...)
		}
	}
	return append(b, 0)
}

// tokens of a JSON object parsed by encoding/json (trusted reference): count, then per member (sorted by name): name,
// kind, raw compact text | nested object. A member is opened as a nested object iff the abstract struct declares a
// struct-typed field under that name / alias.
func jsonTokens(raw []byte, shape *s16) ([]string, bool) {
	dec := json.NewDecoder(bytes.NewReader(raw))
	var top map[string]json.RawMessage
	if err := dec.Decode(&top); err != nil || dec.More() {
		return nil, false
	}
	var walk func(m map[string]json.RawMessage, sh *s16) ([]string, bool)
	walk = func(m map[string]json.RawMessage, sh *s16) ([]string, bool) {
		keys := make([]string, 0, len(m))
		for k := range m {
			keys = append(keys, k)
		}
		sort.Strings(keys)
		out := []string{fi(len(keys))}
		for _, k := range keys {
			v := bytes.TrimSpace(m[k])
			var sub *s16
			for _, f := range sh.Fields {
				if (f.Name == k || f.Alias == k) && f.Ty == thrift.STRUCT {
					sub = f.Sub
				}
			}
			if sub != nil && len(v) > 0 && v[0] == '{' {
				var sm map[string]json.RawMessage
				if err := json.Unmarshal(v, &sm); err != nil {
					return nil, false
				}
				t, ok := walk(sm, sub)
				if !ok {
					return nil, false
				}
				out = append(out, fs(k), fi(1))
				out = append(out, t...)
			} else {
				var cbuf bytes.Buffer
				if err := json.Compact(&cbuf, v); err != nil {
					return nil, false
				}
				out = append(out, fs(k), fi(0), fx(cbuf.Bytes()))
			}
		}
		return out, true
	}
	return walk(top, shape)
}

func genC16(r *rng, n int) {
	genC16Structs(r.fork(), n)
	// requiredness / default handling of cutting below two or more container levels (check 1101 of the cutting model:
	// missing required target field, zero fill under WriteDefault, unknown fields, inside list<list<S>>, map<string,list<S>>, ...)
	genC11ThriftMode(r.fork(), n/20, true)
}

func genC16Structs(r *rng, n int) {
	ctx := context.Background()
	perStruct := 4 * 4 * 32
	ns := n / perStruct
	if ns < 2 {
		ns = 2
	}
	for si := 0; si < ns; si++ {
		g := &g16{r: r.fork()}
		root := g.genStruct(0)
		idl := g.idl(root)
		for pb := 0; pb < 8; pb++ {
			if pb >= 4 && !root.hasEnum() {
				continue // ParseEnumAsInt64 changes nothing without enum types / enum defaults
			}
			defs := g.defsFields(pb)
			popts := thrift.Options{SetOptionalBitmap: pb&1 != 0, UseDefaultValue: pb&2 != 0, ParseEnumAsInt64: pb&4 != 0}
			desc, err := parseThrift(idl, popts)
			if err != nil {
				die("C16 IDL does not parse: %v\n%s", err, idl)
			}
			desc2, err := parseThrift(idl, popts) // a second parse: MarshalTo then takes the recursive walk
			if err != nil {
				die("C16 IDL second parse: %v", err)
			}
			// the requires bitmap of every struct descriptor: as built, and again after all the conversions below used it
			sds := map[int]*thrift.StructDescriptor{}
			var collect func(d *thrift.TypeDescriptor, s *s16)
			collect = func(d *thrift.TypeDescriptor, s *s16) {
				sds[s.idx] = d.Struct()
				for _, f := range s.Fields {
					if f.Sub != nil {
						collect(d.Struct().FieldById(thrift.FieldID(f.ID)).Type(), f.Sub)
					}
				}
			}
			collect(desc, root)
			pristine := map[int][]uint64{}
			for i, sd := range sds {
				pristine[i] = append([]uint64(nil), sd.Requires()...)
			}
			dumpBitmaps := func() {
				for i := 0; i < len(g.structs); i++ {
					sd, ok := sds[i]
					if !ok {
						continue
					}
					f := append([]string(nil), defs...)
					f = append(f, fi(i), fi(pb), fi(len(pristine[i])))
					for _, w := range pristine[i] {
						f = append(f, fu(w))
					}
					cur := sd.Requires()
					f = append(f, fi(len(cur)))
					for _, w := range cur {
						f = append(f, fu(w))
					}
					out.emit(1605, f...)
				}
			}
			dumpBitmaps()
			for wb := 0; wb < 16; wb++ {
				copts := conv.Options{WriteRequireField: wb&1 != 0, WriteDefaultField: wb&2 != 0, WriteOptionalField: wb&4 != 0, DisallowUnknownField: wb&8 != 0}
				// an EMPTY-body http request on the SHARED descriptor first (headers supply some of the mapped top-level fields):
				// whatever it does to shared state is seen by the conversions that follow
				{
					var hm []*m16
					req, rerr := dhttp.NewHTTPRequestFromUrl("GET", "http://localhost/x", nil)
					if rerr != nil {
						die("http request: %v", rerr)
					}
					for _, f := range root.Fields {
						if f.HTTP == "" || !r.chance(60) {
							continue
						}
						var b []byte
						var j string
						for {
							b, j = g.scalarValue(f.Ty)
							if j != "\"\"" {
								break
							}
						}
						hm = append(hm, &m16{F: f, Ty: f.tyFor(pb), State: 2, Bin: b, JSON: j})
						req.Request.Header.Set(f.HTTP, strings.Trim(j, "\""))
					}
					hopts := copts
					hopts.EnableHttpMapping = true
					hctx := context.WithValue(ctx, conv.CtxKeyHTTPRequest, req)
					for ei, run := range []func() ([]byte, error){
						func() ([]byte, error) { cv := j2t.NewBinaryConv(hopts); return cv.Do(hctx, desc, []byte{}) },
						func() ([]byte, error) { cv := j2tportable.NewBinaryConv(hopts); return cv.Do(hctx, desc, []byte{}) },
					} {
						var ob []byte
						var e error
						ec := 0
						if ok, _ := noPanic(func() { ob, e = run() }); !ok {
							ec = 9
						} else if ec = errClass(e); ec != 0 {
							ob = nil
						}
						f := append([]string(nil), defs...)
						f = append(f, fi(root.idx), fi(pb), fi(wb))
						f = append(f, g.membersFields(hm)...)
						f = append(f, fi(ec), fx(ob))
						out.emit(1606+ei, f...)
					}
				}
				for k := 0; k < 2-pb/4; k++ {
					mode := 0
					if k == 1 && r.chance(30) {
						mode = 1 + r.intn(3)
					}
					emit := func(check int, ms []*m16, ec int, outb []byte, extra []string) {
						f := append([]string(nil), defs...)
						f = append(f, fi(root.idx), fi(pb), fi(wb))
						f = append(f, g.membersFields(ms)...)
						f = append(f, fi(ec), fx(outb))
						f = append(f, extra...)
						out.emit(check, f...)
					}
					// --- j2t, native and portable on the same input text
					ms := g.genMembers(root, 0, mode, true, pb)
					js := []byte(g.jsonOf(ms))
					{
						cv := j2t.NewBinaryConv(copts)
						var ob []byte
						var e error
						ec := 0
						if ok, _ := noPanic(func() { ob, e = cv.Do(ctx, desc, js) }); !ok {
							ec = 9
						} else if ec = errClass(e); ec != 0 {
							ob = nil
						}
						emit(1601, ms, ec, ob, nil)
					}
					{
						cv := j2tportable.NewBinaryConv(copts)
						var ob []byte
						var e error
						ec := 0
						if ok, _ := noPanic(func() { ob, e = cv.Do(ctx, desc, js) }); !ok {
							ec = 9
						} else if ec = errClass(e); ec != 0 {
							ob = nil
						}
						emit(1602, ms, ec, ob, nil)
					}
					// --- t2j and MarshalTo on the Thrift encoding of a pattern without nulls
					ms2 := g.genMembers(root, 0, mode, false, pb)
					tb := thriftOf(ms2)
					{
						// with http mapping: a recording response setter in the context; fields mapped to a header (at the top
						// level and inside nested structs) are delivered there, present or filled
						httpMode := root.hasHTTP() && r.chance(50)
						topts := copts
						tctx := ctx
						resp := dhttp.NewHTTPResponse()
						if httpMode {
							topts.EnableHttpMapping = true
							tctx = context.WithValue(ctx, conv.CtxKeyHTTPResponse, resp)
						}
						cv := t2j.NewBinaryConv(topts)
						var ob []byte
						var e error
						ec := 0
						if ok, _ := noPanic(func() { ob, e = cv.Do(tctx, desc, tb) }); !ok {
							ec = 9
						} else {
							ec = errClass(e)
						}
						extra := []string{fb(httpMode), fi(0)}
						if ec == 0 {
							if toks, ok := jsonTokens(ob, root); ok {
								extra = append([]string{fb(httpMode), fi(1)}, toks...)
								var hs []string
								for _, st := range g.structs {
									for _, f := range st.Fields {
										if f.HTTP == "" {
											continue
										}
										if vals, ok := resp.Header[textproto.CanonicalMIMEHeaderKey(f.HTTP)]; ok {
											hs = append(hs, fs(f.HTTP), fs(strings.Join(vals, "\x00")))
										}
									}
								}
								extra = append(extra, fi(len(hs)/2))
								extra = append(extra, hs...)
							}
						} else {
							ob = nil
						}
						emit(1603, ms2, ec, ob, extra)
					}
					{
						gopts := &generic.Options{NotCheckRequireNess: wb&1 != 0, WriteDefault: wb&2 != 0, DisallowUnknow: wb&8 != 0}
						v := generic.NewValue(desc, tb)
						var ob []byte
						var e error
						ec := 0
						if ok, _ := noPanic(func() { ob, e = v.MarshalTo(desc2, gopts) }); !ok {
							ec = 9
						} else if ec = errClass(e); ec != 0 {
							ob = nil
						}
						emit(1604, ms2, ec, ob, nil)
					}
				}
			}
			dumpBitmaps() // pristine words against what the descriptors hold after all these conversions
		}
	}
}
