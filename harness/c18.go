//go:build verif

package main

// C18 — native (avx2 / avx / sse) and portable implementations agree; native text encoders exact.
//
// Flavours are re-bound inside this one process through native.VerifUse (harness/ovl/zz_verif_flavour.go):
// every work item is first generated, then all items are run under one flavour after the other, then joined.
// A flavour the CPU lacks is left out of the mask field (bit 0 avx2, bit 1 avx, bit 2 sse) and its result slots stay empty.

import (
	"context"
	"fmt"
	"math"
	"math/big"
	"os"
	"strconv"
	"syscall"
	"time"
	"unsafe"

	"github.com/cloudwego/dynamicgo/conv"
	"github.com/cloudwego/dynamicgo/conv/j2t"
	"github.com/cloudwego/dynamicgo/conv/j2tportable"
	"github.com/cloudwego/dynamicgo/internal/json"
	"github.com/cloudwego/dynamicgo/internal/jsonportable"
	"github.com/cloudwego/dynamicgo/internal/native"
	"github.com/cloudwego/dynamicgo/thrift"
)

func init() { generators["C18"] = genC18 }

var c18Flavours = []string{"avx2", "avx", "sse"}

// flavours available on this CPU, as indices into c18Flavours (VERIF_C18_FLAVOURS=avx,sse restricts the set: used to test the skip logic)
func c18Avail() (idx []int, mask int) {
	only := os.Getenv("VERIF_C18_FLAVOURS")
	for i, f := range c18Flavours {
		if only != "" && !containsWord(only, f) {
			continue
		}
		if native.VerifHas(f) {
			idx = append(idx, i)
			mask |= 1 << uint(i)
		}
	}
	return
}

func containsWord(list, w string) bool {
	start := 0
	for i := 0; i <= len(list); i++ {
		if i == len(list) || list[i] == ',' {
			if list[start:i] == w {
				return true
			}
			start = i + 1
		}
	}
	return false
}

type c18Res struct {
	out []byte
	err int // 0 ok, 1 error, 3 panic
	n   int
}

// one unit of work; run(fl) is called once per available flavour (fl = 0..2) and once with fl = 3 for the portable / Go side
type c18Item interface {
	run(fl int)
	emit(mask int)
}

func genC18(r *rng, n int) {
	avail, mask := c18Avail()
	var items []c18Item
	items = append(items, genC18J2T(r.fork(), n)...)
	items = append(items, genC18Http(r.fork(), n)...)
	items = append(items, genC18Skip(r.fork(), n)...)
	items = append(items, genC18Itoa(r.fork(), n)...)
	items = append(items, genC18Ftoa(r.fork(), n)...)
	items = append(items, genC18Quote(r.fork(), n)...)
	addrs := map[[5]uintptr]bool{}
	for _, fl := range avail {
		if !native.VerifUse(c18Flavours[fl]) {
			die("cannot bind flavour %s", c18Flavours[fl])
		}
		addrs[native.VerifStubAddrs()] = true
		for _, it := range items {
			it.run(fl)
		}
	}
	for _, it := range items {
		it.run(3)
	}
	// 1800: flavour inventory. fields: mask of flavours run, number of distinct stub bindings seen (must equal the number of flavours)
	out.emit(1800, fi(mask), fi(len(addrs)), fi(len(avail)))
	for _, it := range items {
		it.emit(mask)
	}
	fmt.Fprintf(os.Stderr, "C18 flavours run: mask=%d distinct-bindings=%d\n", mask, len(addrs))
}

// ---------------------------------------------------------------------------------------------- 1801 j2t

type j2tItem struct {
	shape []string
	optb  int
	topts thrift.Options
	desc  *thrift.TypeDescriptor
	doc   []byte
	into  bool
	res   [4]c18Res
}

func c18ConvOpts(b int) conv.Options {
	return conv.Options{
		WriteRequireField:    b&1 != 0,
		WriteDefaultField:    b&2 != 0,
		WriteOptionalField:   b&4 != 0,
		DisallowUnknownField: b&8 != 0,
		String2Int64:         b&16 != 0,
		NoBase64Binary:       b&32 != 0,
	}
}

func (it *j2tItem) run(fl int) {
	opts := c18ConvOpts(it.optb)
	doc := append([]byte(nil), it.doc...)
	var outb []byte
	var err error
	ok, _ := noPanic(func() {
		if it.into { // DoInto with a fresh small buffer: no pooled (already grown) buffer hides the growth path
			buf := make([]byte, 0, 16)
			if fl == 3 {
				cv := j2tportable.NewBinaryConv(opts)
				err = cv.DoInto(context.Background(), it.desc, doc, &buf)
			} else {
				cv := j2t.NewBinaryConv(opts)
				err = cv.DoInto(context.Background(), it.desc, doc, &buf)
			}
			outb = buf
		} else if fl == 3 {
			cv := j2tportable.NewBinaryConv(opts)
			outb, err = cv.Do(context.Background(), it.desc, doc)
		} else {
			cv := j2t.NewBinaryConv(opts)
			outb, err = cv.Do(context.Background(), it.desc, doc)
		}
	})
	switch {
	case !ok:
		it.res[fl] = c18Res{err: 3}
	case err != nil:
		it.res[fl] = c18Res{err: 1}
	default:
		it.res[fl] = c18Res{out: append([]byte(nil), outb...)}
	}
}

func (it *j2tItem) emit(mask int) {
	f := append([]string(nil), it.shape...)
	f = append(f, fi(it.optb), fx(it.doc), fi(mask))
	for i := 0; i < 4; i++ {
		f = append(f, fx(it.res[i].out), fi(it.res[i].err))
	}
	out.emit(1801, f...)
	if it.optb&7 == 0 {
		out.emit(1807, f...) // the same observations against the J2T model of C02 (no write options: nothing is filled in)
	}
}

// ---------------------------------------------------------------------------------------------- 1802 skip

type skipItem struct {
	t   thrift.Type
	b   []byte
	res [4]c18Res
}

var c18SkipHangs int

func (it *skipItem) run(fl int) {
	p := thrift.BinaryProtocol{Buf: append([]byte(nil), it.b...)}
	var e error
	n := 0
	ok := true
	if fl == 3 {
		// SkipGo under a watchdog: a skipper that moves the cursor backwards can loop forever; the spinning goroutine is abandoned
		// (err 4 = no answer within the time limit) so that the case is reported instead of hanging the harness
		type ans struct {
			ok bool
			e  error
			n  int
		}
		ch := make(chan ans, 1)
		go func() {
			var a ans
			a.ok, _ = noPanic(func() {
				a.e = p.SkipGo(it.t, thrift.MaxSkipDepth)
				a.n = p.Read
			})
			ch <- a
		}()
		limit := 2 * time.Second
		if c18SkipHangs >= 8 {
			limit = 200 * time.Millisecond
		}
		select {
		case a := <-ch:
			ok, e, n = a.ok, a.e, a.n
		case <-time.After(limit):
			c18SkipHangs++
			it.res[fl] = c18Res{err: 4}
			return
		}
	} else {
		ok, _ = noPanic(func() {
			e = p.SkipNative(it.t, thrift.MaxSkipDepth)
			n = p.Read
		})
	}
	switch {
	case !ok:
		it.res[fl] = c18Res{err: 3}
	case e != nil:
		it.res[fl] = c18Res{err: 1}
	default:
		it.res[fl] = c18Res{n: n}
	}
}

func (it *skipItem) emit(mask int) {
	f := []string{fi(int(it.t)), fx(it.b), fi(mask), fi(it.res[3].err), fi(it.res[3].n)}
	for i := 0; i < 3; i++ {
		f = append(f, fi(it.res[i].err), fi(it.res[i].n))
	}
	out.emit(1802, f...)
}

// all type shapes to depth 3 over a small alphabet: scalars {BOOL, I32, STRING, DOUBLE}, containers over them, exhaustively
func c18Shapes(depth int) []*Ty {
	base := []*Ty{{K: thrift.BOOL}, {K: thrift.I08}, {K: thrift.I32}, {K: thrift.DOUBLE}, {K: thrift.STRING}}
	if depth <= 1 {
		return base
	}
	sub := c18Shapes(depth - 1)
	outl := append([]*Ty(nil), base...)
	for _, e := range sub {
		outl = append(outl, &Ty{K: thrift.LIST, Elem: e}, &Ty{K: thrift.SET, Elem: e})
		outl = append(outl, &Ty{K: thrift.MAP, Key: &Ty{K: thrift.STRING}, Elem: e}, &Ty{K: thrift.MAP, Key: &Ty{K: thrift.I32}, Elem: e})
		outl = append(outl, &Ty{K: thrift.STRUCT, Name: "S", Fields: []*Fld{{ID: 1, Name: "a", T: e}}})
		outl = append(outl, &Ty{K: thrift.STRUCT, Name: "S", Fields: []*Fld{{ID: 1, Name: "a", T: e}, {ID: 300, Name: "b", T: &Ty{K: thrift.I16}}}})
	}
	return outl
}

func genC18Skip(r *rng, n int) []c18Item {
	var items []c18Item
	add := func(t thrift.Type, b []byte) { items = append(items, &skipItem{t: t, b: b}) }
	derive := func(t thrift.Type, b []byte, always bool) {
		tail := r.bytes(r.intn(4))
		add(t, append(append([]byte(nil), b...), tail...))
		if len(b) > 1 && (always || r.chance(50)) {
			add(t, append([]byte(nil), b[:r.intn(len(b))]...)) // truncated
		}
		if len(b) > 1 && (always || r.chance(40)) {
			add(t, append([]byte(nil), b[:len(b)-1]...)) // truncated by exactly one byte (off-by-one bounds checks)
		}
		if len(b) > 0 && (always || r.chance(30)) { // one byte substituted
			c := append([]byte(nil), b...)
			c[r.intn(len(c))] = byte(r.next())
			add(t, c)
		}
	}
	// exhaustive shapes to depth 3, one value each (0..2 elements), every n-th also truncated / corrupted
	shapes := c18Shapes(3)
	stride := 1
	if budget := n / 3; len(shapes) > budget && budget > 0 {
		stride = (len(shapes) + budget - 1) / budget
	}
	off := r.intn(stride)
	for i, t := range shapes {
		if stride > 1 && i%stride != off && i >= 40 {
			continue
		}
		g := newTgen(r.fork())
		v := g.genValue(t, 0)
		derive(t.K, v.encode(nil), i%5 == 0)
	}
	// random shapes (struct keys, all scalar kinds, depth 4)
	for i := 0; i < n/8+10; i++ {
		g := newTgen(r.fork())
		g.structKeys = true
		root := g.genType(0)
		v := g.genValue(root, 0)
		derive(root.K, v.encode(nil), false)
	}
	for t := 0; t < 20; t++ { // every small type code on a short buffer
		add(thrift.Type(t), []byte{0, 0, 0, 1, 0, 0, 0, 0, 0})
	}
	add(thrift.STRUCT, nil)
	add(thrift.I32, []byte{1, 2})
	// huge declared counts in short buffers: containers of fixed-width elements (every width) whose count x width does not fit the
	// remaining bytes, incl. products that wrap at 32 bits (count x width = 2^31, 2^32, 2^32 + small, ...). The model's skip must fail
	// (count exceeds the remaining bytes) and so must SkipGo and every flavour of SkipNative. Top level, inside a struct field, as the
	// first element of an outer list, and as a map value.
	fixed := []thrift.Type{thrift.BOOL, thrift.I08, thrift.I16, thrift.I32, thrift.I64, thrift.DOUBLE}
	counts := []uint32{1 << 27, 1 << 28, 1 << 29, 1 << 30, 1<<31 - 1, 1<<29 + 1, 1<<28 + 2, 1<<30 + 3, 1<<31 - 8, 1 << 26, 1<<27 + 5}
	be32 := func(b []byte, n uint32) []byte { return append(b, byte(n>>24), byte(n>>16), byte(n>>8), byte(n)) }
	listHdr := func(et thrift.Type, n uint32) []byte { return be32([]byte{byte(et)}, n) }
	mapHdr := func(kt, vt thrift.Type, n uint32) []byte { return be32([]byte{byte(kt), byte(vt)}, n) }
	tails := func(h []byte) [][]byte { // header only, header + a few bytes, header + some lanes of zeros
		return [][]byte{append([]byte(nil), h...), append(append([]byte(nil), h...), r.bytes(1+r.intn(7))...), append(append([]byte(nil), h...), make([]byte, 16+r.intn(64))...)}
	}
	embed := func(ct thrift.Type, body []byte) {
		// inside a struct field (field 1, then STOP and padding)
		st := append([]byte{byte(ct), 0, 1}, body...)
		add(thrift.STRUCT, append(append(st, 0), make([]byte, r.intn(32))...))
		// as the first element of an outer list of 2 containers
		add(thrift.LIST, append(listHdr(ct, 2), body...))
		// as a map value: map<i32, container>[1]
		add(thrift.MAP, append(append(mapHdr(thrift.I32, ct, 1), 0, 0, 0, 7), body...))
	}
	for _, et := range fixed {
		for _, n := range counts {
			for i, b := range tails(listHdr(et, n)) {
				add([]thrift.Type{thrift.LIST, thrift.SET}[r.intn(2)], b)
				if i == 2 {
					add(thrift.LIST, b)
					add(thrift.SET, b)
					embed([]thrift.Type{thrift.LIST, thrift.SET}[r.intn(2)], b)
				}
			}
		}
	}
	for _, kt := range fixed {
		for _, vt := range fixed {
			for j := 0; j < 3; j++ {
				n := counts[r.intn(len(counts))]
				if j == 0 { // count x (key width + value width) lands on or just above a power of two when the pair width is one
					w := uint32(thrift.TypeSize(kt) + thrift.TypeSize(vt))
					n = uint32((uint64(1)<<uint(31+r.intn(2)))/uint64(w)) + uint32(r.intn(2))
					if n >= 1<<31 {
						n = 1<<31 - 1
					}
				}
				bs := tails(mapHdr(kt, vt, n))
				add(thrift.MAP, bs[r.intn(3)])
				if j == 1 {
					embed(thrift.MAP, bs[2])
				}
			}
		}
	}
	// map counts with the top bit set (negative as int32) over variable-width keys / values, followed by k well-formed pairs:
	// the count must be rejected; a skipper that stores 2*count-1 in 32 bits sees k pairs (count = 2^31 + k)
	for _, k := range []uint32{0, 1, 2, 3} {
		for _, cnt := range []uint32{1<<31 + k, 0xffffffff, 0xc0000000 + k} {
			// map<string,i32>
			b := be32([]byte{byte(thrift.STRING), byte(thrift.I32)}, cnt)
			for i := uint32(0); i < k; i++ {
				b = append(b, 0, 0, 0, 1, 'a'+byte(i), 0, 0, 0, byte(i))
			}
			add(thrift.MAP, append(append([]byte(nil), b...), r.bytes(r.intn(3))...))
			// map<i64,list<i16>>
			c := be32([]byte{byte(thrift.I64), byte(thrift.LIST)}, cnt)
			for i := uint32(0); i < k; i++ {
				c = append(c, 0, 0, 0, 0, 0, 0, 0, byte(i), byte(thrift.I16), 0, 0, 0, 1, 0, 7)
			}
			add(thrift.MAP, c)
			embed(thrift.MAP, c)
			// the same counts on a list<string> / set<struct> (unsigned count far beyond the input: everybody must fail)
			l := be32([]byte{byte(thrift.STRING)}, cnt)
			for i := uint32(0); i < k; i++ {
				l = append(l, 0, 0, 0, 1, 'x')
			}
			add(thrift.LIST, l)
			add(thrift.SET, append(be32([]byte{byte(thrift.STRUCT)}, cnt), 0, 0, 0))
		}
	}
	// nesting depth around the limits (MaxSkipDepth = 1023 in Go, TB_SKIP_STACK_SIZE = 1024 in the native skipper):
	// d nested lists list<list<...list<i32>>>, each with one element, the innermost one empty
	for _, d := range []int{2, 500, 1000, 1021, 1022, 1023, 1024, 1025, 1026, 1100} {
		var b []byte
		for i := 0; i < d-1; i++ {
			b = append(b, byte(thrift.LIST), 0, 0, 0, 1)
		}
		b = append(b, byte(thrift.I32), 0, 0, 0, 0)
		add(thrift.LIST, b)
		// the same depth through structs: struct{1: struct{1: ... struct{}}}
		var sb []byte
		for i := 0; i < d-1; i++ {
			sb = append(sb, byte(thrift.STRUCT), 0, 1)
		}
		for i := 0; i < d; i++ {
			sb = append(sb, 0)
		}
		add(thrift.STRUCT, sb)
	}
	return items
}

// ---------------------------------------------------------------------------------------------- 1803 i64toa

type itoaItem struct {
	v   int64
	pre int // bytes already in the buffer (moves the output position across lanes)
	res [4]c18Res
}

func (it *itoaItem) run(fl int) {
	buf := make([]byte, it.pre, it.pre+40)
	for i := range buf {
		buf[i] = 'p'
	}
	var o []byte
	ok, _ := noPanic(func() {
		if fl == 3 {
			jsonportable.VerifI64toa(&buf, it.v)
			o = buf
		} else {
			o = json.EncodeInt64(buf, it.v)
		}
	})
	if !ok || len(o) < it.pre {
		it.res[fl] = c18Res{err: 3}
		return
	}
	for i := 0; i < it.pre; i++ {
		if o[i] != 'p' {
			it.res[fl] = c18Res{err: 2} // bytes before the write position were overwritten
			return
		}
	}
	it.res[fl] = c18Res{out: append([]byte(nil), o[it.pre:]...)}
}

func (it *itoaItem) emit(mask int) {
	f := []string{fn(it.v), fi(mask)}
	for i := 0; i < 4; i++ {
		f = append(f, fx(it.res[i].out), fi(it.res[i].err))
	}
	f = append(f, fs(strconv.FormatInt(it.v, 10)))
	out.emit(1803, f...)
}

func genC18Itoa(r *rng, n int) []c18Item {
	seen := map[int64]bool{}
	var items []c18Item
	add := func(v int64) {
		if seen[v] {
			return
		}
		seen[v] = true
		items = append(items, &itoaItem{v: v, pre: r.intn(18)})
	}
	add(0)
	add(math.MinInt64)
	add(math.MaxInt64)
	p := int64(1)
	for k := 0; k <= 18; k++ { // +-10^k, +-(10^k - 1), +-(10^k + 1)
		for _, d := range []int64{-1, 0, 1} {
			add(p + d)
			add(-(p + d))
		}
		if k < 18 {
			p *= 10
		}
	}
	for k := 0; k <= 63; k++ { // +-2^k, +-(2^k +- 1)
		var q uint64 = 1 << uint(k)
		for _, d := range []uint64{^uint64(0), 0, 1} {
			add(int64(q + d))
			add(-int64(q + d))
		}
	}
	for i := 0; i < n/3+50; i++ {
		switch r.intn(4) {
		case 0: // uniform over the decimal length
			k := r.intn(19) + 1
			m := new(big.Int).Exp(big.NewInt(10), big.NewInt(int64(k)), nil)
			x := new(big.Int).SetUint64(r.next())
			x.Mod(x, m)
			v := x.Int64()
			if x.IsInt64() {
				if r.bool() {
					v = -v
				}
				add(v)
			}
		case 1: // digit patterns with runs of 0 / 9
			v := int64(0)
			k := 1 + r.intn(18)
			for j := 0; j < k; j++ {
				d := int64([]int{0, 9, 9, 0, 1, 5}[r.intn(6)])
				if j == 0 && d == 0 {
					d = 1
				}
				v = v*10 + d
			}
			if r.bool() {
				v = -v
			}
			add(v)
		default:
			add(int64(r.u64()))
		}
	}
	return items
}

// ---------------------------------------------------------------------------------------------- 1804 f64toa / 1806 dec2f64 vs strconv

type ftoaItem struct {
	bits uint64
	pre  int
	res  [4]c18Res
}

func (it *ftoaItem) run(fl int) {
	buf := make([]byte, it.pre, it.pre+48)
	for i := range buf {
		buf[i] = 'p'
	}
	v := math.Float64frombits(it.bits)
	var o []byte
	ok, _ := noPanic(func() {
		if fl == 3 {
			jsonportable.VerifF64toa(&buf, v)
			o = buf
		} else {
			o = json.EncodeFloat64(buf, v)
		}
	})
	if !ok || len(o) < it.pre {
		it.res[fl] = c18Res{err: 3}
		return
	}
	for i := 0; i < it.pre; i++ {
		if o[i] != 'p' {
			it.res[fl] = c18Res{err: 2}
			return
		}
	}
	it.res[fl] = c18Res{out: append([]byte(nil), o[it.pre:]...)}
}

// strconv's reading of a lexeme: (parsed 0/1, bits)
func c18ParseFloat(s []byte) (int, uint64) {
	f, err := strconv.ParseFloat(string(s), 64)
	if err != nil {
		if ne, ok := err.(*strconv.NumError); ok && ne.Err == strconv.ErrRange {
			return 1, math.Float64bits(f) // +-Inf: the correctly rounded result of an overflowing decimal
		}
		return 0, 0
	}
	return 1, math.Float64bits(f)
}

func (it *ftoaItem) emit(mask int) {
	f := []string{fu(it.bits), fi(mask)}
	for i := 0; i < 4; i++ {
		okp, b := c18ParseFloat(it.res[i].out)
		f = append(f, fx(it.res[i].out), fi(it.res[i].err), fi(okp), fu(b))
	}
	out.emit(1804, f...)
}

func (it *ftoaItem) isItem() {}

type lexItem struct{ lex []byte }

func (it *lexItem) run(fl int) {}
func (it *lexItem) emit(mask int) {
	okp, b := c18ParseFloat(it.lex)
	out.emit(1806, fx(it.lex), fi(okp), fu(b))
}

// exact decimal expansion of the rational num/den * 2^e2 (finite: den is a power of two)
func c18ExactDecimal(m *big.Int, e2 int) string {
	x := new(big.Rat).SetInt(m)
	if e2 >= 0 {
		x.Mul(x, new(big.Rat).SetInt(new(big.Int).Lsh(big.NewInt(1), uint(e2))))
		return x.FloatString(0)
	}
	x.Quo(x, new(big.Rat).SetInt(new(big.Int).Lsh(big.NewInt(1), uint(-e2))))
	return x.FloatString(-e2)
}

// the exact midpoint between the double with the given (positive, finite) bits and its successor, as a decimal literal
func c18MidpointDecimal(bits uint64) string {
	exp := int(bits >> 52 & 0x7ff)
	frac := bits & (1<<52 - 1)
	var m uint64
	var e2 int
	if exp == 0 {
		m, e2 = frac, -1074
	} else {
		m, e2 = frac|1<<52, exp-1075
	}
	mm := new(big.Int).SetUint64(m)
	mm.Lsh(mm, 1)
	mm.Add(mm, big.NewInt(1))
	return c18ExactDecimal(mm, e2-1)
}

func genC18Ftoa(r *rng, n int) []c18Item {
	var items []c18Item
	seen := map[uint64]bool{}
	add := func(b uint64) {
		if seen[b] {
			return
		}
		seen[b] = true
		items = append(items, &ftoaItem{bits: b, pre: r.intn(18)})
	}
	both := func(b uint64) { add(b); add(b | 1<<63) }
	both(0)                  // +-0
	both(1)                  // least subnormal
	both(2)
	both(1<<52 - 1)          // greatest subnormal
	both(1 << 52)            // least normal
	both(1<<52 + 1)
	both(0x7fefffffffffffff) // greatest finite
	both(0x7feffffffffffffe)
	both(0x7ff0000000000000) // Inf
	both(0x7ff8000000000000) // NaN
	both(0x7ff0000000000001)
	for _, f := range []float64{1 << 53, 1<<53 - 1, 1<<53 + 2, 1 << 52, 1<<52 + 1, 1 << 63, 1 << 64, 1<<63 - 1024, 0.1, 0.2, 0.3, 1.0 / 3, 2.0 / 3, 5e-324, 1e23, 8.41e21, 9007199254740993,
		2.2250738585072011e-308, 2.2250738585072014e-308, 1.7976931348623157e308, 4.9406564584124654e-324, 123456789012345680, 1e21, 1e20, 999999999999999900000, 1e-6, 1e-7, 0.000001234, 100, 1e15, 1e16, 1e17} {
		both(math.Float64bits(f))
		both(math.Float64bits(math.Nextafter(f, math.Inf(1))))
		both(math.Float64bits(math.Nextafter(f, math.Inf(-1))))
	}
	// powers of ten (correctly rounded by strconv) and neighbours: all of them in the thorough tier, a random residue class in the quick tier
	pstride := 1
	if n < 20000 {
		pstride = 4
	}
	poff := r.intn(pstride)
	for k := -330; k <= 310; k++ {
		if (k+330)%pstride != poff && (k < -2 || k > 23) {
			continue
		}
		f, err := strconv.ParseFloat("1e"+strconv.Itoa(k), 64)
		if err != nil {
			continue
		}
		both(math.Float64bits(f))
		if k%7 == 0 {
			both(math.Float64bits(math.Nextafter(f, 0)))
			both(math.Float64bits(math.Nextafter(f, math.Inf(1))))
		}
	}
	// binade boundaries: powers of two and the patterns just around them
	bstep := 1
	if n < 20000 {
		bstep = 12
	}
	for e := uint64(r.intn(bstep)); e < 2047; e += uint64(1 + r.intn(2*bstep-1)) {
		both(e << 52)
		if e%4 == 0 {
			both(e<<52 | (1<<52 - 1))
			both(e<<52 | 1)
		}
	}
	for i := 0; i < n/8+50; i++ {
		switch r.intn(5) {
		case 0: // integers
			both(math.Float64bits(float64(int64(r.u64()))))
		case 1: // short decimals
			f, _ := strconv.ParseFloat(fmt.Sprintf("%d.%de%d", r.intn(1000), r.intn(1000), r.intn(40)-20), 64)
			both(math.Float64bits(f))
		case 2: // subnormals
			add(r.next() & (1<<52 - 1) >> uint(r.intn(52)))
		default:
			add(r.next())
		}
	}
	// 1806: lexemes on which the model's dec2f64 is compared with strconv.ParseFloat (a disagreement is a MODEL defect)
	lex := func(s string) { items = append(items, &lexItem{lex: []byte(s)}) }
	for _, s := range []string{"0", "-0", "0.0", "-0.0e5", "1", "1e0", "1E+0", "1e-0", "0.1", "1e23", "9007199254740993", "9007199254740992", "9007199254740991", "18014398509481985",
		"1.7976931348623157e308", "1.7976931348623158e308", "1.7976931348623159e308", "1.797693134862315807e308", "1.797693134862315808e308", "1e309", "1e400", "123456789e300", "2e308", "1e-400", "1e-324", "2e-324", "3e-324", "2.4703282292062327e-324", "2.4703282292062328e-324", "2.4703282292062329e-324",
		"4.9406564584124654e-324", "7.4109846876186981e-324", "7.4109846876186982e-324", "2.2250738585072011e-308", "2.2250738585072012e-308", "2.2250738585072014e-308", "2.225073858507201e-308",
		"0.000000000000000000000000000000000000000000001", "100000000000000000000000000000000000000000000000000", "1.00000000000000011102230246251565404236316680908203125", "1.00000000000000011102230246251565404236316680908203124", "1.00000000000000011102230246251565404236316680908203126",
		"1.00000000000000033306690738754696212708950042724609375", "0e999999", "0e-999999", "1e-999999", "1e999999", "0.00000e400", "12345678901234567890123456789012345678901234567890e-40"} {
		lex(s)
	}
	for i := 0; i < n/40+20; i++ {
		switch r.intn(4) {
		case 0: // exact halfway between a random double and its successor (all classes of exponent), and the literals just below / above it
			var b uint64
			switch r.intn(4) {
			case 0:
				b = r.next() & (1<<52 - 1) >> uint(r.intn(52)) // subnormal
			case 1:
				b = uint64(1+r.intn(2046))<<52 | (r.next() & (1<<52 - 1))
			case 2:
				b = uint64(1000+r.intn(100))<<52 | (r.next() & (1<<52 - 1)) // moderate exponents: shorter literals
			default:
				b = uint64(1+r.intn(2046))<<52 | (1<<52 - 1) // midpoint to the next binade
			}
			if b >= 0x7fefffffffffffff {
				b = 0x7feffffffffffffe
			}
			s := c18MidpointDecimal(b)
			lex(s)
			lex(s + "1")
			if s[len(s)-1] == '5' {
				lex(s[:len(s)-1] + "49999")
			}
		case 1: // random decimal lexemes with exponents
			s := ""
			if r.bool() {
				s = "-"
			}
			s += strconv.FormatUint(r.u64(), 10)
			if r.bool() {
				s += "." + strconv.FormatUint(r.next()>>uint(r.intn(64)), 10)
			}
			if r.chance(70) {
				s += []string{"e", "E", "e+", "e-", "E-"}[r.intn(5)] + strconv.Itoa(r.intn(340))
			}
			lex(s)
		case 2: // shortest and 17-digit spellings of random doubles
			f := math.Float64frombits(r.next())
			if f != f || math.IsInf(f, 0) {
				continue
			}
			lex(strconv.FormatFloat(f, 'e', 16, 64))
			lex(strconv.FormatFloat(f, 'g', -1, 64))
		default: // many digits
			s := "0."
			for j := r.intn(30); j > 0; j-- {
				s += "0"
			}
			for j := 1 + r.intn(60); j > 0; j-- {
				s += string(rune('0' + r.intn(10)))
			}
			lex(s)
		}
	}
	return items
}

// ---------------------------------------------------------------------------------------------- 1805 quote

var c18Page []byte // three pages; the last one is PROT_NONE (a read past the end of a string placed before it faults)

func c18GuardBuf() []byte {
	if c18Page != nil {
		return c18Page
	}
	ps := syscall.Getpagesize()
	m, err := syscall.Mmap(-1, 0, 4*ps, syscall.PROT_READ|syscall.PROT_WRITE, syscall.MAP_ANON|syscall.MAP_PRIVATE)
	if err != nil {
		die("mmap: %v", err)
	}
	if err := syscall.Mprotect(m[3*ps:], syscall.PROT_NONE); err != nil {
		die("mprotect: %v", err)
	}
	c18Page = m[:3*ps]
	return c18Page
}

func c18UnsafeString(p *byte, n int) string {
	h := struct {
		p unsafe.Pointer
		n int
	}{unsafe.Pointer(p), n}
	return *(*string)(unsafe.Pointer(&h))
}

type quoteItem struct {
	s     []byte
	place int // 0..63: offset from a 64-byte aligned address; 100: the string ends exactly at the end of a page followed by an unmapped page
	ocap  int // capacity of the output buffer handed to EncodeString (small values exercise the growth loop around native.Quote)
	res   [4]c18Res
}

func (it *quoteItem) run(fl int) {
	var src string
	var hold []byte
	if it.place == 100 {
		g := c18GuardBuf()
		copy(g[len(g)-len(it.s):], it.s)
		if len(it.s) > 0 {
			src = c18UnsafeString(&g[len(g)-len(it.s)], len(it.s))
		}
	} else {
		hold = make([]byte, len(it.s)+192)
		base := 0
		for uintptr(unsafe.Pointer(&hold[base]))%64 != 0 {
			base++
		}
		base += it.place
		copy(hold[base:], it.s)
		if len(it.s) > 0 {
			src = c18UnsafeString(&hold[base], len(it.s))
		}
	}
	buf := make([]byte, 0, it.ocap)
	var o []byte
	ok, _ := noPanic(func() {
		if fl == 3 {
			buf = append(buf, '"')
			jsonportable.NoQuote(&buf, src)
			o = append(buf, '"')
		} else {
			o = json.EncodeString(buf, src)
		}
	})
	_ = hold
	if !ok {
		it.res[fl] = c18Res{err: 3}
		return
	}
	it.res[fl] = c18Res{out: append([]byte(nil), o...)}
}

func (it *quoteItem) emit(mask int) {
	f := []string{fx(it.s), fi(it.place), fi(mask)}
	for i := 0; i < 4; i++ {
		f = append(f, fx(it.res[i].out), fi(it.res[i].err))
	}
	out.emit(1805, f...)
}

// escape-relevant alphabet: all control bytes, quote, backslash, DEL, slash, and the UTF-8 class boundaries
var c18QuoteAlphabet = func() []string {
	var a []string
	for c := 0; c < 0x20; c++ {
		a = append(a, string(rune(c)))
	}
	a = append(a, "\"", "\\", "\x7f", "/", "<", ">", "&", "\u0080", "\u07ff", "\u0800", "\u2028", "\u2029", "\uffff", "\ufffd", "\ud7ff", "\ue000", "\U00010000", "\U0001f600", "\U0010ffff", "\u00e9", "\u4e2d")
	return a
}()

func genC18Quote(r *rng, n int) []c18Item {
	var items []c18Item
	plain := "abcdefghijklmnopqrstuvwxyz0123456789 ABCXYZ-_.,:;{}[]"
	mk := func(l int, dens int) []byte {
		// a valid UTF-8 string of exactly l bytes: plain ASCII with escape-relevant code points at the given density (percent)
		var s []byte
		for len(s) < l {
			if r.chance(dens) {
				c := c18QuoteAlphabet[r.intn(len(c18QuoteAlphabet))]
				if len(s)+len(c) <= l {
					s = append(s, c...)
					continue
				}
			}
			s = append(s, plain[r.intn(len(plain))])
		}
		return s
	}
	add := func(s []byte, place int) {
		oc := []int{0, 1, 7, 16, 33, len(s) + 2, len(s) + 3, 2*len(s) + 64, 6*len(s) + 64}[r.intn(9)]
		items = append(items, &quoteItem{s: s, place: place, ocap: oc})
	}
	// every single alphabet element alone and at every lane position of a 33-byte string
	for _, c := range c18QuoteAlphabet {
		add([]byte(c), r.intn(64))
	}
	for pos := 0; pos < 33; pos++ {
		c := c18QuoteAlphabet[r.intn(len(c18QuoteAlphabet))]
		s := append(append(mk(pos, 0), c...), mk(32-pos, 0)...)
		add(s, r.intn(64))
		add(s, 100)
	}
	// all lengths 0..96 with several densities and placements
	for l := 0; l <= 96; l++ {
		add(mk(l, 0), r.intn(64))
		add(mk(l, 15), r.intn(64))
		add(mk(l, 15), 100)
		if n >= 1000 {
			add(mk(l, 60), r.intn(64))
			add(mk(l, 100), 100)
		}
	}
	// around 4096 and other page / buffer boundaries
	for _, l := range []int{4000, 4064, 4080, 4094, 4095, 4096, 4097, 4098, 4111, 4128, 8191, 8192, 8193} {
		add(mk(l, 3), r.intn(64))
		add(mk(l, 3), 100)
		if l <= 4128 {
			add(mk(l, 40), r.intn(64))
		}
	}
	for i := 0; i < n/10+20; i++ {
		add(mk(r.intn(300), []int{0, 5, 30, 100}[r.intn(4)]), []int{r.intn(64), 100}[r.intn(2)])
	}
	return items
}
