//go:build verif

package main

import (
	"bytes"
	"context"
	"encoding/base64"
	"fmt"
	"math"
	"os"
	"regexp"
	"runtime/debug"
	"sort"
	"strconv"
	"strings"
	"unicode/utf8"

	"github.com/cloudwego/dynamicgo/conv"
	"github.com/cloudwego/dynamicgo/conv/j2t"
	"github.com/cloudwego/dynamicgo/conv/j2tportable"
	"github.com/cloudwego/dynamicgo/internal/caching"
	"github.com/cloudwego/dynamicgo/meta"
	"github.com/cloudwego/dynamicgo/thrift"
)

func init() { generators["C02"] = genC02 }

// ---- descriptors -----------------------------------------------------------------------------

type c02gen struct {
	r      *rng
	g      *tgen
	alias  map[*Fld]string // JSON alias (api.key / go.tag); absent = none
	annot  map[*Fld]string // annotation text printed in the IDL
	vm     map[*Fld]bool   // api.js_conv
	mapWay int             // 0 alias (default), 1 field name, 2 both
	root   *Ty
	sdesc  map[*Ty]*thrift.StructDescriptor
	// typedefs: every use of a type in the IDL may go through a chain of typedefs (the model gets the resolved type)
	pTypedef int
	typedefs []string
	tdN      int
}

// the name under which a type is used at one place of the IDL: its own spelling, or a (chain of) typedef(s) for it
func (c *c02gen) tname(t *Ty) string {
	var base string
	switch t.K {
	case thrift.LIST:
		base = "list<" + c.tname(t.Elem) + ">"
	case thrift.SET:
		base = "set<" + c.tname(t.Elem) + ">"
	case thrift.MAP:
		base = "map<" + c.tname(t.Key) + "," + c.tname(t.Elem) + ">"
	default:
		base = t.idlName()
	}
	for c.r.chance(c.pTypedef) {
		c.tdN++
		name := fmt.Sprintf("Td%d", c.tdN)
		c.typedefs = append(c.typedefs, "typedef "+base+" "+name+"\n")
		base = name
	}
	return base
}

// number of struct-level key lookups of the document that run into the native trie's off-by-one bound test (finding 207)
func (c *c02gen) oobLookups(keys []c02skey) int {
	n := 0
	for _, sk := range keys {
		if sd := c.sdesc[sk.t]; sd != nil && c02TrieOOB(sd.VerifNameTrie(), sk.k) {
			n++
		}
	}
	return n
}

var c02AliasAlphabet = []string{"al", "Al", "a.b", "a-b", "x_y", "K", "k1", "key", "QQ", "z9"}

func newC02gen(r *rng) *c02gen {
	c := &c02gen{r: r, g: newTgen(r.fork()), alias: map[*Fld]string{}, annot: map[*Fld]string{}, vm: map[*Fld]bool{}, sdesc: map[*Ty]*thrift.StructDescriptor{}}
	c.g.maxDepth = 2 + r.intn(3)
	c.g.maxFields = 2 + r.intn(5)
	c.g.keyKinds = []thrift.Type{thrift.STRING, thrift.I08, thrift.I16, thrift.I32, thrift.I64, thrift.DOUBLE, thrift.STRING, thrift.I64}
	c.mapWay = r.intn(3)
	if r.chance(50) {
		c.mapWay = 0
	}
	if r.chance(60) {
		c.pTypedef = 25
	}
	st := c.g.genStruct(0)
	c.root = st
	if r.chance(12) { // non-struct top-level descriptor
		c.root = c.g.genType(1) // incl. STRING / binary (the unquoted-string special case of impl.go is modelled by j2t_do)
	}
	// recursive types: a struct refers to itself / an earlier struct
	if r.chance(30) {
		s := c.g.structs[r.intn(len(c.g.structs))]
		tgt := c.g.structs[r.intn(len(c.g.structs))]
		var t *Ty
		switch r.intn(3) {
		case 0:
			t = tgt
		case 1:
			t = &Ty{K: thrift.LIST, Elem: tgt}
		default:
			t = &Ty{K: thrift.MAP, Key: &Ty{K: thrift.STRING}, Elem: tgt}
		}
		id := int16(20000 + r.intn(100))
		s.Fields = append(s.Fields, &Fld{ID: id, Name: fmt.Sprintf("rec_%d", id), T: t})
	}
	n := 0
	for _, s := range c.g.structs {
		for _, f := range s.Fields {
			f.Req = 2 * r.intn(2) // default or optional requiredness only (C16 covers the rest)
			n++
			var anns []string
			if r.chance(30) {
				a := fmt.Sprintf("%s%d", c02AliasAlphabet[r.intn(len(c02AliasAlphabet))], n)
				wild := r.chance(50)
				if wild { // bytes below '.' and above 'z' at any position (native trie buckets / hash)
					const alpha = " !#$%&'()*+,-{|}~./09AZaz_"
					b := make([]byte, 1+r.intn(6))
					for i := range b {
						b[i] = alpha[r.intn(len(alpha))]
					}
					pos := r.intn(len(b) + 1)
					a = string(b[:pos]) + strconv.Itoa(n) + string(b[pos:]) // the counter keeps the keys of one IDL distinct
				}
				c.alias[f] = a
				if r.bool() || wild {
					anns = append(anns, fmt.Sprintf("api.key = \"%s\"", a))
				} else {
					anns = append(anns, fmt.Sprintf("go.tag = 'json:\"%s\"'", a))
				}
			}
			// api.js_conv: mostly on the scalar types the native value mapping supports, rarely elsewhere (then every value is an error)
			sup := false
			switch f.T.K {
			case thrift.I08, thrift.I16, thrift.I32, thrift.I64, thrift.DOUBLE:
				sup = true
			case thrift.STRING:
				sup = !f.T.Binary
			}
			if (sup && r.chance(20)) || r.chance(2) {
				c.vm[f] = true
				anns = append(anns, "api.js_conv = \"true\"")
			}
			if len(anns) > 0 {
				c.annot[f] = " (" + strings.Join(anns, ", ") + ")"
			}
		}
	}
	return c
}

func (c *c02gen) idl() string {
	var sb strings.Builder
	c.typedefs, c.tdN = nil, 0
	for i := len(c.g.structs) - 1; i >= 0; i-- {
		s := c.g.structs[i]
		sb.WriteString("struct " + s.Name + " {\n")
		for _, f := range s.Fields {
			req := ""
			if f.Req == 2 {
				req = "optional "
			} else if f.Req == 1 {
				req = "required "
			}
			sb.WriteString(fmt.Sprintf("  %d: %s%s %s%s\n", f.ID, req, c.tname(f.T), f.Name, c.annot[f]))
		}
		sb.WriteString("}\n")
	}
	rn := c.tname(c.root)
	sb.WriteString("service Svc { " + rn + " M(1: " + rn + " req) }\n")
	return "namespace go verif\n" + strings.Join(c.typedefs, "") + sb.String()
}

// the keys the harness predicts must be the ones the IDL parser derived (a harness bug must not look like a finding)
func (c *c02gen) checkAliases(t *Ty, d *thrift.TypeDescriptor, seen map[*Ty]bool) {
	if d == nil {
		die("C02: nil descriptor for %s", t.idlName())
	}
	switch t.K {
	case thrift.STRUCT:
		if seen[t] {
			return
		}
		seen[t] = true
		c.sdesc[t] = d.Struct()
		for _, f := range t.Fields {
			fd := d.Struct().FieldById(thrift.FieldID(f.ID))
			if fd == nil {
				die("C02: field %d missing in descriptor", f.ID)
			}
			for _, k := range c.keys(f) {
				if got := d.Struct().FieldByKey(k); got == nil || got.ID() != thrift.FieldID(f.ID) {
					die("C02: key %q does not select field %d (alias %q)", k, f.ID, fd.Alias())
				}
			}
			c.checkAliases(f.T, fd.Type(), seen)
		}
	case thrift.LIST, thrift.SET:
		c.checkAliases(t.Elem, d.Elem(), seen)
	case thrift.MAP:
		c.checkAliases(t.Elem, d.Elem(), seen)
	}
}

// the JSON keys selecting a field, as the model gets them
func (c *c02gen) keys(f *Fld) []string {
	a, ok := c.alias[f]
	if !ok {
		a = f.Name
	}
	switch c.mapWay {
	case 1:
		return []string{f.Name}
	case 2:
		if a != f.Name {
			return []string{a, f.Name}
		}
	}
	return []string{a}
}

func (c *c02gen) tyFields(t *Ty) []string {
	switch t.K {
	case thrift.STRUCT:
		return []string{"n12", fi(c.g.structIndex(t))}
	case thrift.LIST:
		return append([]string{"n15"}, c.tyFields(t.Elem)...)
	case thrift.SET:
		return append([]string{"n14"}, c.tyFields(t.Elem)...)
	case thrift.MAP:
		return append(append([]string{"n13"}, c.tyFields(t.Key)...), c.tyFields(t.Elem)...)
	case thrift.STRING:
		if t.Binary {
			return []string{"n111"}
		}
	}
	return []string{fi(int(t.K))}
}

func (c *c02gen) descFields() []string {
	out := []string{fi(len(c.g.structs))}
	for _, s := range c.g.structs {
		out = append(out, fi(len(s.Fields)))
		for _, f := range s.Fields {
			ks := c.keys(f)
			vm := 0
			if c.vm[f] {
				vm = 1
			}
			out = append(out, fi(int(f.ID)), fi(f.Req), fi(vm), fi(len(ks)))
			for _, k := range ks {
				out = append(out, fs(k))
			}
			out = append(out, c.tyFields(f.T)...)
		}
	}
	return append(out, c.tyFields(c.root)...)
}

// ---- values ----------------------------------------------------------------------------------

var c02Pieces = []string{"a", "b", "key", "é", "😀", "\"", "\\", "/", "\n", "\x00", "\x1f", " ", "\x7f", "𝄞", " ", "</script>", "\t", "\r", "\b", "\f", "0", "-1", "null", "{", "]", ":"}

func (c *c02gen) str() []byte {
	r := c.r
	switch r.intn(10) {
	case 0:
		return nil
	case 1:
		return r.bytes(r.intn(12)) // mostly invalid UTF-8
	case 2:
		n := 60 + r.intn(80) // around SIMD block sizes
		var b []byte
		for len(b) < n {
			b = append(b, c02Pieces[r.intn(len(c02Pieces))]...)
		}
		return b
	}
	var b []byte
	for k := r.intn(6); k >= 0; k-- {
		b = append(b, c02Pieces[r.intn(len(c02Pieces))]...)
	}
	return b
}

func c02Bounds(k thrift.Type) []int64 {
	var w uint
	switch k {
	case thrift.I08:
		w = 8
	case thrift.I16:
		w = 16
	case thrift.I32:
		w = 32
	default:
		w = 64
	}
	max := int64(1)<<(w-1) - 1
	min := -max - 1
	out := []int64{min, min + 1, max, max - 1, 0, -1, 1, 10, 100, -100}
	if w == 64 {
		out = append(out, 1<<53, 1<<53+1, -(1<<53 + 1), 1<<53-1, 1000000000000000000, 9007199254740993, 1e15)
	}
	return out
}

func (c *c02gen) finiteDouble() uint64 {
	r := c.r
	fl := []uint64{0, 0x3ff0000000000000, 0xbff0000000000000, 0x4059000000000000, 0x3fb999999999999a, 0x8000000000000000, 0x400921fb54442d18,
		1, 0x000fffffffffffff, 0x0010000000000000, 0x7fefffffffffffff, 0xffefffffffffffff, 0x4340000000000000, 0x4340000000000001, 0x433fffffffffffff,
		0x41dfffffffc00000, 0x3ff0000000000001, 0x3fefffffffffffff, 0x44b52d02c7e14af6, 0x3e112e0be826d695}
	d := r.u64()
	if r.chance(55) {
		d = fl[r.intn(len(fl))]
	} else if r.chance(40) {
		d = math.Float64bits(float64(int64(r.u64()) >> uint(r.intn(60))))
	}
	if (d>>52)&0x7ff == 0x7ff { // NaN / Inf have no JSON spelling
		d &^= 1 << 62
	}
	return d
}

func (c *c02gen) value(t *Ty, depth int) *Val {
	r := c.r
	v := &Val{T: t}
	switch t.K {
	case thrift.BOOL:
		v.I = int64(r.intn(2))
	case thrift.I08, thrift.I16, thrift.I32, thrift.I64:
		if r.chance(35) {
			b := c02Bounds(t.K)
			v.I = b[r.intn(len(b))]
		} else {
			v.I = c.g.genInt(t.K)
		}
	case thrift.DOUBLE:
		v.D = c.finiteDouble()
	case thrift.STRING:
		v.S = c.str()
		if r.chance(8) {
			v.S = []byte([]string{"0", "12", "-7", "1.5", "1e3", "-0", "123456789012345678901234567890"}[r.intn(7)])
		}
	case thrift.STRUCT:
		perm := r.permN(len(t.Fields))
		for _, i := range perm {
			f := t.Fields[i]
			pAbsent := 25
			if depth > 3 {
				pAbsent = 60
			}
			if depth > 8 {
				pAbsent = 100
			}
			if r.chance(pAbsent) {
				continue
			}
			v.FIDs = append(v.FIDs, f.ID)
			v.Fields = append(v.Fields, c.value(f.T, depth+1))
		}
	case thrift.LIST, thrift.SET:
		n := r.intn(5)
		if depth > 5 {
			n = r.intn(2)
		}
		if r.chance(4) && depth < 3 {
			n = 17 + r.intn(40)
		}
		for i := 0; i < n; i++ {
			v.Elems = append(v.Elems, c.value(t.Elem, depth+1))
		}
	case thrift.MAP:
		n := r.intn(5)
		if depth > 5 {
			n = r.intn(2)
		}
		seen := map[string]bool{}
		for i := 0; i < n; i++ {
			k := c.value(t.Key, depth+1)
			kb := string(k.encode(nil))
			if seen[kb] {
				continue
			}
			seen[kb] = true
			v.Keys = append(v.Keys, k)
			v.Elems = append(v.Elems, c.value(t.Elem, depth+1))
		}
	}
	return v
}

func (r *rng) permN(n int) []int {
	p := make([]int, n)
	for i := range p {
		p[i] = i
	}
	for i := n - 1; i > 0; i-- {
		j := r.intn(i + 1)
		p[i], p[j] = p[j], p[i]
	}
	return p
}

// ---- JSON printer with respelling -------------------------------------------------------------

type c02printer struct {
	c    *c02gen
	r    *rng
	sb   []byte
	opts conv.Options
	vmOn bool
	// style knobs (per document)
	pWs, pEsc, pNum, pNull, pUnknown, pS2I, pNullElem, pDup int
	pB64Esc                                               int // escape inside base64 / string-number (finding 203)
	canonical                                             bool
	// one wrong-kind / out-of-range mutation at the node with this running index (-1 = none)
	mutateAt, node int
	mutKind        int
	mutated        bool
	vmNow          bool      // the value being printed is the value of an api.js_conv member and EnableValueMapping is on
	skeys          []c02skey // every key printed at struct level (declared, null, unknown), with its struct
}

type c02skey struct {
	t *Ty
	k string
}

// the walk of native trie_get (native/map.c): true when the key makes it read index[len] (its bound test is `j > len`)
func c02TrieOOB(t *caching.TrieTree, k string) bool {
	if t == nil || k == "" {
		return false
	}
	l := len(k) - 1
	fs := t.Index
	for _, i := range t.Positions {
		if i > l {
			i = l
		}
		c := k[i]
		j := int(uint8(c - '.'))
		if c < '.' {
			j = int(uint8(255 + c - '.'))
		}
		if j == len(fs) {
			return true
		}
		if j > len(fs) {
			return false
		}
		fp := &fs[j]
		if fp.Leaves == nil {
			return false
		}
		fs = fp.Index
	}
	return false
}

func (p *c02printer) ws() {
	for p.r.chance(p.pWs) {
		p.sb = append(p.sb, " \t\n\r"[p.r.intn(4)])
	}
}

const hexLower = "0123456789abcdef"
const hexUpper = "0123456789ABCDEF"

func (p *c02printer) u4(cp rune) {
	hx := hexLower
	p.sb = append(p.sb, '\\', 'u')
	for sh := 12; sh >= 0; sh -= 4 {
		if p.r.bool() {
			hx = hexUpper
		} else {
			hx = hexLower
		}
		p.sb = append(p.sb, hx[(cp>>uint(sh))&15])
	}
}

// a string literal denoting exactly b (valid UTF-8 runs may be escaped; other bytes are copied raw)
func (p *c02printer) str(b []byte, pEsc int) {
	p.sb = append(p.sb, '"')
	for i := 0; i < len(b); {
		cp, n := utf8.DecodeRune(b[i:])
		if cp == utf8.RuneError && n <= 1 {
			p.sb = append(p.sb, b[i]) // invalid UTF-8 byte: raw
			i++
			continue
		}
		short := byte(0)
		switch cp {
		case '"':
			short = '"'
		case '\\':
			short = '\\'
		case '/':
			short = '/'
		case '\b':
			short = 'b'
		case '\f':
			short = 'f'
		case '\n':
			short = 'n'
		case '\r':
			short = 'r'
		case '\t':
			short = 't'
		}
		must := cp < 0x20 || cp == '"' || cp == '\\'
		if must || p.r.chance(pEsc) {
			if short != 0 && (p.r.chance(70) || p.canonical) {
				p.sb = append(p.sb, '\\', short)
			} else if cp < 0x10000 {
				p.u4(cp)
			} else {
				x := cp - 0x10000
				p.u4(0xd800 + (x >> 10))
				p.u4(0xdc00 + (x & 0x3ff))
			}
		} else {
			p.sb = append(p.sb, b[i:i+n]...)
		}
		i += n
	}
	p.sb = append(p.sb, '"')
}

var c02NumRe = regexp.MustCompile(`^-?(0|[1-9][0-9]*)(\.[0-9]+)?([eE][+-]?[0-9]+)?$`)

func c02IsNumber(b []byte) bool { return c02NumRe.Match(b) }

func trimZeros(s string) (string, int) {
	k := 0
	for len(s) > 1 && s[len(s)-1] == '0' {
		s = s[:len(s)-1]
		k++
	}
	return s, k
}

// spellings of the integer z (all denote exactly z)
func (p *c02printer) intSpell(z int64) string {
	r := p.r
	can := strconv.FormatInt(z, 10)
	if p.canonical || !r.chance(p.pNum) {
		return can
	}
	sign := ""
	digits := can
	if z < 0 {
		sign = "-"
		digits = can[1:]
	}
	e := "e"
	if r.bool() {
		e = "E"
	}
	switch r.intn(6) {
	case 0: // strip trailing zeros into an exponent
		if z != 0 {
			m, k := trimZeros(digits)
			if k > 0 {
				pl := ""
				if r.bool() {
					pl = "+"
				}
				return sign + m + e + pl + strconv.Itoa(k)
			}
		}
		return can + ".0"
	case 1:
		return can + "." + strings.Repeat("0", 1+r.intn(4))
	case 2: // d.ddd e(n-1)
		if len(digits) > 1 {
			return sign + digits[:1] + "." + digits[1:] + e + strconv.Itoa(len(digits)-1)
		}
		return can + e + "0"
	case 3: // move the point k places left, compensate
		k := 1 + r.intn(3)
		if len(digits) > k {
			return sign + digits[:len(digits)-k] + "." + digits[len(digits)-k:] + e + "+" + strconv.Itoa(k)
		}
		return sign + "0." + strings.Repeat("0", k-len(digits)) + digits + e + strconv.Itoa(k)
	case 4: // scaled up mantissa, negative exponent
		k := 1 + r.intn(3)
		if z == 0 {
			return "0" + e + "-" + strconv.Itoa(k)
		}
		return sign + digits + strings.Repeat("0", k) + e + "-" + strconv.Itoa(k)
	default:
		if z == 0 {
			return []string{"-0", "0.0", "-0.0", "0e0", "0E+5", "0e-7", "0.000"}[r.intn(7)]
		}
		return can + e + "-0"
	}
}

func (p *c02printer) dblSpell(bits uint64) string {
	r := p.r
	f := math.Float64frombits(bits)
	if f == 0 && bits != 0 {
		if r.chance(8) && !p.canonical {
			return "-0" // the code reads this as +0.0 (drift class)
		}
		return "-0.0"
	}
	if p.canonical || !r.chance(p.pNum) {
		return strconv.FormatFloat(f, 'g', -1, 64)
	}
	switch r.intn(5) {
	case 0:
		return strconv.FormatFloat(f, 'e', -1, 64)
	case 1:
		return strconv.FormatFloat(f, 'E', 17+r.intn(25), 64)
	case 2:
		if math.Abs(f) < 1e25 && math.Abs(f) > 1e-20 || f == 0 {
			return strconv.FormatFloat(f, 'f', -1, 64)
		}
		return strconv.FormatFloat(f, 'f', -1, 64) // very long digit strings (several hundred digits)
	case 3:
		return strconv.FormatFloat(f, 'e', 18+r.intn(4), 64) // 19..22 significant digits: around the 19-digit mantissa limit of vnumber
	default:
		return strconv.FormatFloat(f, 'g', 17, 64)
	}
}

var c02WrongKinds = []string{"true", "false", "1", "-2.5", "\"s\"", "\"\"", "[]", "[1]", "{}", "{\"a\":1}", "1e2", "\"12\""}

func jsonKindOf(lit string) int { // 1 bool 2 number 3 string 4 array 5 object
	switch lit[0] {
	case 't', 'f':
		return 1
	case '"':
		return 3
	case '[':
		return 4
	case '{':
		return 5
	}
	return 2
}

func (p *c02printer) kindAdmitted(t *Ty, k int) bool {
	switch t.K {
	case thrift.BOOL:
		return k == 1
	case thrift.I08, thrift.I16, thrift.I32, thrift.I64, thrift.DOUBLE:
		return k == 2 || (k == 3 && p.opts.String2Int64)
	case thrift.STRING:
		return k == 3
	case thrift.LIST, thrift.SET:
		return k == 4
	}
	return k == 5
}

// a literal of a JSON kind the type does not admit / a number outside the type's domain
func (p *c02printer) mutant(t *Ty) string {
	r := p.r
	if p.mutKind == 1 { // out-of-range / fractional / huge numbers for integer fields, bad base64 for binary
		switch t.K {
		case thrift.I08:
			return []string{"128", "-129", "300", "1.5", "1e3", "255", "256", "-0.5", "1e10", "99999999999999999999"}[r.intn(10)]
		case thrift.I16:
			return []string{"32768", "-32769", "65536", "0.5", "1e5", "3.2768e4", "1e10", "-1e10"}[r.intn(8)]
		case thrift.I32:
			return []string{"2147483648", "-2147483649", "4294967296", "2.5", "1e10", "-1e10", "21474836480e-1", "1e-1"}[r.intn(8)]
		case thrift.I64:
			return []string{"9223372036854775808", "-9223372036854775809", "1e19", "-1e19", "0.25", "123456789012345678901234567890", "18446744073709551616", "9223372036854775807.5"}[r.intn(8)]
		case thrift.DOUBLE:
			return []string{"1e400", "-1e400", "1e309", "2e308", "179769313486231580793728971405303415079934132710037826936173778980444968292764750946649017977587207096330286416692887910946555547851940402630657488671505820681908902000708383676273854845817711531764475730270069855571366959622842914819860834936475292719074168444365510704342711559699508093042880177904174497792"}[r.intn(5)]
		case thrift.STRING:
			if t.Binary && !p.opts.NoBase64Binary {
				return []string{"\"a\"", "\"ab\"", "\"abc\"", "\"a===\"", "\"ab=c\"", "\"a b=\"", "\"YWJj\\n\"", "\"_-8=\"", "\"YWJjZA\"", "\"=\"", "\"YW=j\"", "\"YWJj====\""}[r.intn(12)]
			}
		}
	}
	for {
		lit := c02WrongKinds[r.intn(len(c02WrongKinds))]
		if !p.kindAdmitted(t, jsonKindOf(lit)) {
			return lit
		}
	}
}

func (p *c02printer) randJSON(depth int) {
	r := p.r
	k := r.intn(8)
	if depth > 2 && k >= 6 {
		k = r.intn(6)
	}
	switch k {
	case 0:
		p.sb = append(p.sb, "null"...)
	case 1:
		p.sb = append(p.sb, []string{"true", "false"}[r.intn(2)]...)
	case 2:
		p.sb = append(p.sb, p.intSpell(int64(r.u64()))...)
	case 3:
		p.sb = append(p.sb, p.dblSpell(p.c.finiteDouble())...)
	case 4, 5:
		p.str(p.c.str(), p.pEsc)
	case 6:
		p.sb = append(p.sb, '[')
		for i, n := 0, r.intn(4); i < n; i++ {
			if i > 0 {
				p.sb = append(p.sb, ',')
			}
			p.ws()
			p.randJSON(depth + 1)
			p.ws()
		}
		p.ws()
		p.sb = append(p.sb, ']')
	default:
		p.sb = append(p.sb, '{')
		for i, n := 0, r.intn(4); i < n; i++ {
			if i > 0 {
				p.sb = append(p.sb, ',')
			}
			p.ws()
			p.str(p.c.str(), p.pEsc)
			p.ws()
			p.sb = append(p.sb, ':')
			p.ws()
			p.randJSON(depth + 1)
			p.ws()
		}
		p.ws()
		p.sb = append(p.sb, '}')
	}
}

func (p *c02printer) unknownKey(t *Ty) []byte {
	r := p.r
	switch r.intn(7) {
	case 0:
		return nil // the empty key
	case 1: // longer than the key cache (1024), forced through unquote by an escape
		b := []byte(strings.Repeat("k", 1025+r.intn(2000)))
		b[r.intn(len(b))] = '\n'
		return b
	case 2, 3: // near miss of a declared key
		if len(t.Fields) > 0 {
			k := p.c.keys(t.Fields[r.intn(len(t.Fields))])[0]
			switch r.intn(4) {
			case 0:
				return []byte(k + "x")
			case 1:
				return []byte(k[:len(k)-1])
			case 2:
				return []byte(strings.ToUpper(k) + "_")
			default:
				return []byte(k + "\x00")
			}
		}
	}
	return []byte(fmt.Sprintf("zz%d", r.intn(1000)))
}

func (p *c02printer) isDeclaredKey(t *Ty, k []byte) bool {
	for _, f := range t.Fields {
		for _, x := range p.c.keys(f) {
			if x == string(k) {
				return true
			}
		}
	}
	return false
}

func (p *c02printer) val(v *Val) {
	r := p.r
	t := v.T
	me := p.node
	p.node++
	vmNow := p.vmNow
	p.vmNow = false
	if me == p.mutateAt {
		p.mutated = true
		p.sb = append(p.sb, p.mutant(t)...)
		return
	}
	if vmNow && !p.canonical {
		switch t.K {
		case thrift.I08, thrift.I16, thrift.I32, thrift.I64:
			if r.chance(50) {
				if v.I == 0 && r.chance(30) {
					p.sb = append(p.sb, "\"\""...) // "" = zero value
				} else {
					p.sb = append(p.sb, "\""+p.intSpell(v.I)+"\""...)
				}
				return
			}
		case thrift.DOUBLE:
			if r.chance(50) {
				p.sb = append(p.sb, "\""+p.dblSpell(v.D)+"\""...)
				return
			}
		case thrift.STRING:
			if !t.Binary && c02IsNumber(v.S) && r.chance(70) {
				p.sb = append(p.sb, v.S...) // a string field takes the lexeme of a bare number
				return
			}
		}
	}
	switch t.K {
	case thrift.BOOL:
		if v.I != 0 {
			p.sb = append(p.sb, "true"...)
		} else {
			p.sb = append(p.sb, "false"...)
		}
	case thrift.I08, thrift.I16, thrift.I32, thrift.I64:
		s := p.intSpell(v.I)
		if p.opts.String2Int64 && r.chance(p.pS2I) {
			if r.chance(p.pB64Esc) {
				s = strings.Replace(s, "1", "\\u0031", 1)
			}
			s = "\"" + s + "\""
		}
		p.sb = append(p.sb, s...)
	case thrift.DOUBLE:
		s := p.dblSpell(v.D)
		if p.opts.String2Int64 && r.chance(p.pS2I) {
			s = "\"" + s + "\""
		}
		p.sb = append(p.sb, s...)
	case thrift.STRING:
		if t.Binary && !p.opts.NoBase64Binary {
			e := base64.StdEncoding.EncodeToString(v.S)
			if r.chance(p.pB64Esc) {
				e = strings.Replace(e, "/", "\\/", 1)
			}
			p.sb = append(p.sb, '"')
			p.sb = append(p.sb, e...)
			p.sb = append(p.sb, '"')
		} else {
			p.str(v.S, p.pEsc)
		}
	case thrift.LIST, thrift.SET:
		p.sb = append(p.sb, '[')
		first := true
		sep := func() {
			if !first {
				p.sb = append(p.sb, ',')
			}
			first = false
			p.ws()
		}
		for _, e := range v.Elems {
			if r.chance(p.pNullElem) {
				sep()
				p.sb = append(p.sb, "null"...)
				p.ws()
			}
			sep()
			p.val(e)
			p.ws()
		}
		if r.chance(p.pNullElem) {
			sep()
			p.sb = append(p.sb, "null"...)
		}
		p.ws()
		p.sb = append(p.sb, ']')
	case thrift.MAP:
		p.sb = append(p.sb, '{')
		first := true
		sep := func() {
			if !first {
				p.sb = append(p.sb, ',')
			}
			first = false
			p.ws()
		}
		for i, e := range v.Elems {
			sep()
			p.mapKey(v.Keys[i])
			p.ws()
			p.sb = append(p.sb, ':')
			p.ws()
			p.val(e)
			p.ws()
			if r.chance(p.pNullElem) { // an entry whose value is null (dropped by the converter)
				sep()
				p.mapKey(v.Keys[i])
				p.sb = append(p.sb, ':')
				p.ws()
				p.sb = append(p.sb, "null"...)
			}
		}
		p.ws()
		p.sb = append(p.sb, '}')
	case thrift.STRUCT:
		p.sb = append(p.sb, '{')
		first := true
		sep := func() {
			if !first {
				p.sb = append(p.sb, ',')
			}
			first = false
			p.ws()
		}
		extra := func() {
			if r.chance(p.pNull) && len(t.Fields) > 0 { // a null member for a declared field
				f := t.Fields[r.intn(len(t.Fields))]
				ks := p.c.keys(f)
				sep()
				kk := ks[r.intn(len(ks))]
				p.skeys = append(p.skeys, c02skey{t, kk})
				p.str([]byte(kk), p.pEsc)
				p.ws()
				p.sb = append(p.sb, ':')
				p.ws()
				p.sb = append(p.sb, "null"...)
				p.ws()
			}
			if r.chance(p.pUnknown) {
				k := p.unknownKey(t)
				if !p.isDeclaredKey(t, k) {
					sep()
					p.skeys = append(p.skeys, c02skey{t, string(k)})
					p.str(k, p.pEsc)
					p.ws()
					p.sb = append(p.sb, ':')
					p.ws()
					p.randJSON(0)
					p.ws()
				}
			}
		}
		for i, id := range v.FIDs {
			extra()
			var f *Fld
			for _, x := range t.Fields {
				if x.ID == id {
					f = x
				}
			}
			ks := p.c.keys(f)
			reps := 1
			if r.chance(p.pDup) {
				reps = 2
			}
			for ; reps > 0; reps-- {
				sep()
				kk := ks[r.intn(len(ks))]
				p.skeys = append(p.skeys, c02skey{t, kk})
				p.str([]byte(kk), p.pEsc)
				p.ws()
				p.sb = append(p.sb, ':')
				p.ws()
				p.vmNow = p.vmOn && p.c.vm[f]
				if reps == 2 { // the duplicate is written too: keep the node numbering stable by printing the same value canonically
					save, sn := p.mutateAt, p.node
					p.mutateAt = -1
					p.val(v.Fields[i])
					p.mutateAt, p.node = save, sn
				} else {
					p.val(v.Fields[i])
				}
				p.ws()
			}
		}
		extra()
		p.ws()
		p.sb = append(p.sb, '}')
	}
}

func (p *c02printer) mapKey(k *Val) {
	switch k.T.K {
	case thrift.STRING:
		p.str(k.S, p.pEsc)
	case thrift.DOUBLE:
		p.sb = append(p.sb, '"')
		p.sb = append(p.sb, p.dblSpell(k.D)...)
		p.sb = append(p.sb, '"')
	default:
		p.sb = append(p.sb, '"')
		p.sb = append(p.sb, strconv.FormatInt(k.I, 10)...)
		p.sb = append(p.sb, '"')
	}
}

func countNodes(v *Val) int {
	n := 1
	for _, x := range v.Fields {
		n += countNodes(x)
	}
	for _, x := range v.Elems {
		n += countNodes(x)
	}
	return n
}

// ---- running the implementation ---------------------------------------------------------------

var c02PortN int

var c02Held, c02HeldCopy []byte // the latest non-empty result of Do, as returned / as copied at that moment

type c02res struct {
	cap int
	pre []byte
	ec  int
	out []byte
}

func c02ErrClass(e error) int {
	if e == nil {
		return 0
	}
	if x, ok := e.(meta.Error); ok {
		switch x.Code.Behavior() {
		case meta.ErrUnknownField:
			return 1
		case meta.ErrDismatchType:
			return 2
		case meta.ErrMissRequiredField:
			return 3
		}
	}
	return 4
}

// 10: a memory fault (SIGSEGV turned into a panic by debug.SetPanicOnFault), 9: any other panic
func c02PanicClass(msg string) int {
	if strings.Contains(msg, "fault address") || strings.Contains(msg, "invalid memory address") {
		return 10
	}
	return 9
}

// a converter for opts: either fresh, or one with a HISTORY — built with other options, used once, then SetOptions(opts).
// The result must not depend on the history (every flag is cleared / set by SetOptions).
func c02Conv(r *rng, opts conv.Options, desc *thrift.TypeDescriptor, warm []byte) j2t.BinaryConv {
	if !r.chance(40) {
		return j2t.NewBinaryConv(opts)
	}
	b := r.intn(128)
	if r.chance(30) {
		b = 127 // everything on, then reset
	}
	o1 := conv.Options{DisallowUnknownField: b&1 != 0, String2Int64: b&2 != 0, NoBase64Binary: b&4 != 0, EnableValueMapping: b&8 != 0,
		WriteDefaultField: b&16 != 0, WriteRequireField: b&32 != 0, WriteOptionalField: b&64 != 0}
	cv := j2t.NewBinaryConv(o1)
	if r.chance(70) {
		noPanic(func() { cv.Do(context.Background(), desc, warm) })
	}
	cv.SetOptions(opts)
	return cv
}

// Do, then DoInto over initial capacities / dirty prefixes; distinct (prefix, error class, output) observations only
func c02Run(r *rng, cv *j2t.BinaryConv, desc *thrift.TypeDescriptor, doc []byte, full bool) []c02res {
	r = r.fork() // the sweep's own draws (their number depends on what the implementation did, e.g. a recovered fault) must not shift the case stream
	ctx := context.Background()
	var res []c02res
	seen := map[string]bool{}
	add := func(cp int, pre []byte, ec int, out []byte) {
		if ec != 0 {
			out = nil // the buffer content after an error is unspecified
		}
		key := fmt.Sprintf("%x|%d|%x", pre, ec, out)
		if seen[key] {
			return
		}
		seen[key] = true
		res = append(res, c02res{cp, append([]byte(nil), pre...), ec, append([]byte(nil), out...)})
	}
	var o0 []byte
	var e0 error
	if ok, msg := noPanic(func() { o0, e0 = cv.Do(ctx, desc, doc) }); !ok {
		add(-1, nil, c02PanicClass(msg), nil)
		return res
	}
	add(-1, nil, c02ErrClass(e0), o0)
	// a result handed out by an EARLIER Do must still hold its bytes after this Do (the working buffer is pooled):
	// observed as error class 11 on the current case
	if c02Held != nil && !bytes.Equal(c02Held, c02HeldCopy) {
		add(-2, nil, 11, nil)
	}
	c02Held, c02HeldCopy = nil, nil
	if e0 == nil && len(o0) > 0 {
		c02Held, c02HeldCopy = o0, append([]byte(nil), o0...)
	}
	if !full {
		return res
	}
	n := len(doc)
	outLen := len(o0)
	var caps []int
	for _, cp := range []int{0, 1, 2, n - 1, n, n + 1} {
		if cp >= 0 {
			caps = append(caps, cp)
		}
	}
	if outLen > n { // the only capacities at which ERR_OOM_BUF can be raised: GuardSlice leaves cap >= len(doc) free
		if outLen-n <= 600 {
			for cp := n; cp <= outLen+1; cp++ {
				caps = append(caps, cp)
			}
		} else {
			for d := 1; n+d <= outLen+1; d = d*2 + r.intn(3) {
				caps = append(caps, n+d, outLen+1-d)
			}
			caps = append(caps, outLen-1, outLen, outLen+1)
		}
	}
	for _, cp := range caps {
		pre := []byte(nil)
		if r.chance(25) {
			pre = []byte{0xee, 0xdd, 0xcc}[:1+r.intn(3)]
		}
		buf := make([]byte, len(pre), cp+len(pre))
		copy(buf, pre)
		var e error
		if ok, msg := noPanic(func() { e = cv.DoInto(ctx, desc, doc, &buf) }); !ok {
			add(cp, pre, c02PanicClass(msg), nil)
			continue
		}
		add(cp, pre, c02ErrClass(e), buf)
	}
	return res
}

// check 211: the portable converter (conv/j2tportable = conv/j2t/impl_fallback.go) on the same document, judged by the
// algorithm-level model J2TWalk.j2t_walk
func c02EmitPortable(bits int, doc []byte, desc *thrift.TypeDescriptor, dfs []string) {
	c02PortN++
	if len(doc) > 6000 && c02PortN%4 != 0 { // the walk model costs as much as the spec model: large documents are sampled
		return
	}
	opts := conv.Options{DisallowUnknownField: bits&1 != 0, String2Int64: bits&2 != 0, NoBase64Binary: bits&4 != 0, EnableValueMapping: bits&8 != 0,
		WriteDefaultField: bits&16 != 0, WriteRequireField: bits&32 != 0, WriteOptionalField: bits&64 != 0}
	cv := j2tportable.NewBinaryConv(opts)
	var o []byte
	var e error
	ec := 0
	if ok, msg := noPanic(func() { o, e = cv.Do(context.Background(), desc, doc) }); !ok {
		ec = c02PanicClass(msg)
		o = nil
	} else {
		ec = c02ErrClass(e)
	}
	if ec != 0 {
		o = nil
	}
	f := append([]string(nil), dfs...)
	f = append(f, fi(bits), fx(doc), fi(ec), fx(o))
	out.emit(211, f...)
}

func (c *c02gen) emit(optBits int, oob int, doc []byte, res []c02res, desc []string) {
	f := append([]string(nil), desc...)
	f = append(f, fi(optBits), fi(oob), fx(doc), fi(len(res)))
	for _, x := range res {
		f = append(f, fi(x.cap), fx(x.pre), fi(x.ec), fx(x.out))
	}
	out.emit(201, f...)
}

// ---- generator ---------------------------------------------------------------------------------

func genC02(r *rng, n int) {
	debug.SetPanicOnFault(true) // a memory fault inside the native code becomes a recoverable panic (observed as error class 10)
	docs := 0
	// special classes: depth limit, bitmap cache, dense output (capacity sweep), large documents, hand-written texts
	docs += genC02Special(r, 4)
	for k := 0; k < 2+n/600; k++ {
		docs += genC02Special(r, 5)
	}
	for k := 0; k < 2+n/300; k++ {
		docs += genC02Special(r, 6)
	}
	for k := 0; k < 4+n/100; k++ {
		docs += genC02Special(r, 7)
	}
	for k := 0; k < 1+n/700; k++ {
		docs += genC02Special(r, 0)
	}
	for k := 0; docs < n/5; k++ {
		docs += genC02Special(r, []int{1, 2, 2, 3}[k%4])
	}
	for docs < n {
		c := newC02gen(r.fork())
		idl := c.idl()
		way := []meta.MapFieldWay{meta.MapFieldUseAlias, meta.MapFieldUseFieldName, meta.MapFieldUseBoth}[c.mapWay]
		desc, err := parseThrift(idl, thrift.Options{MapFieldWay: way})
		if err != nil {
			die("C02: generated IDL does not parse: %v\n%s", err, idl)
		}
		// sanity: the aliases the harness predicts are the ones the parser derived (a harness bug must not look like a finding)
		c.checkAliases(c.root, desc, map[*Ty]bool{})
		dfs := c.descFields()
		for k := 0; k < 6 && docs < n; k++ {
			optBits := 0
			if r.chance(25) {
				optBits |= 1 // DisallowUnknownField
			}
			if r.chance(30) {
				optBits |= 2 // String2Int64
			}
			if r.chance(25) {
				optBits |= 4 // NoBase64Binary
			}
			if r.chance(30) {
				optBits |= 8 // EnableValueMapping
			}
			opts := conv.Options{DisallowUnknownField: optBits&1 != 0, String2Int64: optBits&2 != 0, NoBase64Binary: optBits&4 != 0, EnableValueMapping: optBits&8 != 0}
			val := c.value(c.root, 0)
			p := &c02printer{c: c, r: r.fork(), opts: opts, vmOn: optBits&8 != 0, mutateAt: -1}
			switch r.intn(5) {
			case 0: // canonical
				p.canonical = true
			case 1: // light respelling
				p.pWs, p.pEsc, p.pNum, p.pNull, p.pUnknown, p.pS2I = 10, 5, 30, 10, 10, 40
			default: // heavy
				p.pWs, p.pEsc, p.pNum, p.pNull, p.pUnknown, p.pS2I = 35, 40, 70, 25, 25, 50
				p.pDup = 4
			}
			if optBits&1 != 0 && r.chance(70) {
				p.pUnknown = 0
			}
			if r.chance(8) {
				p.pNullElem = 15
			}
			if r.chance(4) {
				p.pB64Esc = 50
			}
			stream := r.intn(100)
			if stream >= 88 { // wrong kind / out of range at one position
				p.mutateAt = r.intn(countNodes(val))
				p.mutKind = r.intn(2)
			}
			p.ws()
			p.val(val)
			if r.chance(10) {
				p.ws()
				p.sb = append(p.sb, []string{"", " ", "x", "}", ",1", "\x00"}[r.intn(6)]...) // trailing bytes after the top-level value are never read
			}
			doc := p.sb
			cv := c02Conv(r, opts, desc, doc)
			if dbg := os.Getenv("C02_DEBUG"); dbg != "" {
				os.WriteFile(dbg+".idl", []byte(idl+fmt.Sprintf("// mapway %d opts %d\n", c.mapWay, optBits)), 0644)
				os.WriteFile(dbg+".json", doc, 0644)
			}
			res := c02Run(r, &cv, desc, doc, true)
			c.emit(optBits, c.oobLookups(p.skeys), doc, res, dfs)
			c02EmitPortable(optBits, doc, desc, dfs)
			docs++
			if stream >= 78 && stream < 88 && len(doc) > 0 { // truncations of the same document
				cuts := []int{0, 1, len(doc) - 1, len(doc) / 2}
				for j := 0; j < 4; j++ {
					cuts = append(cuts, r.intn(len(doc)))
				}
				sort.Ints(cuts)
				last := -1
				for _, cut := range cuts {
					if cut == last || cut >= len(doc) {
						continue
					}
					last = cut
					d2 := append([]byte(nil), doc[:cut]...)
					c.emit(optBits, c.oobLookups(p.skeys), d2, c02Run(r, &cv, desc, d2, false), dfs)
					c02EmitPortable(optBits, d2, desc, dfs)
					docs++
				}
			}
		}
	}
}
