//go:build verif && !race

package main

const c12race = false
