//go:build verif

package main

import (
	pbinary "github.com/cloudwego/dynamicgo/proto/binary"
	"github.com/cloudwego/dynamicgo/thrift"
)

// Generated-definition check 1291 (C12): BinaryProtocol.Recycle (thrift and proto/binary) against gen/Gen_thriftpool.v / Gen_protopool.v:
// a pooled object (own buffer) and a borrowed one (NewBinaryProtocol(buf): the caller's buffer) with content and a moved cursor are
// recycled; the fields of the object that went into the pool are read back.
func init() {
	base := generators["C12"]
	generators["C12"] = func(r *rng, n int) {
		genRecycle(g2cRng(r))
		base(r, n)
	}
}

func genRecycle(r *rng) {
	for rep := 0; rep < 60; rep++ {
		content := r.bytes(r.intn(40))
		rd := 0
		if len(content) > 0 {
			rd = r.intn(len(content) + 1)
		}
		borrowed := rep%2 == 1
		{
			var p *thrift.BinaryProtocol
			if borrowed {
				p = thrift.NewBinaryProtocol(append([]byte{}, content...))
			} else {
				p = thrift.NewBinaryProtocolBuffer()
				p.Buf = append(p.Buf, content...)
			}
			p.Read = rd
			p.Recycle()
			l, c, rd2, b := p.VerifState()
			out.emit(1291, fi(0), fx(content), fi(rd), fi(b2i(borrowed)), fi(l), fi(c), fi(rd2), fi(b2i(b)))
		}
		{
			var p *pbinary.BinaryProtocol
			if borrowed {
				p = pbinary.NewBinaryProtol(append([]byte{}, content...))
			} else {
				p = pbinary.NewBinaryProtocolBuffer()
				p.Buf = append(p.Buf, content...)
			}
			p.Read = rd
			p.Recycle()
			l, c, rd2, b := p.VerifState()
			out.emit(1291, fi(1), fx(content), fi(rd), fi(b2i(borrowed)), fi(l), fi(c), fi(rd2), fi(b2i(b)))
		}
	}
}
