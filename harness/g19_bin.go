//go:build verif

package main

import (
	"math"

	"github.com/cloudwego/dynamicgo/thrift"
)

// Generated-definition checks for gen/Gen_thriftbin.v (C19):
//   1991  BinaryEncoding.Encode* : in-place writes into buffers of every length 0..13 with dirty content (panic = bounds failure)
//   1992  Write{Message,Field,Map,List,Set}Begin, WriteFieldStop: the bytes a fresh BinaryProtocol holds afterwards
//   1993  Read{Message,Field,Map,List,Set}Begin on structured / truncated / random buffers: results, error, bytes consumed
func init() {
	base := generators["C19"]
	generators["C19"] = func(r *rng, n int) {
		genThriftBin(g2cRng(r))
		base(r, n)
	}
}

func genThriftBin(r *rng) {
	enc := thrift.BinaryEncoding{}
	ints := []int64{0, 1, -1, 127, 128, 255, 256, -128, -129, 32767, 32768, -32768, 65535, 1 << 31, -(1 << 31), 1<<31 - 1, 1<<63 - 1, -(1 << 63), int64(r.next()), int64(r.next())}
	strs := [][]byte{{}, []byte("a"), []byte("name"), r.bytes(7), r.bytes(9), r.bytes(13)}
	for kind := 0; kind <= 8; kind++ {
		for blen := 0; blen <= 13; blen++ {
			for rep := 0; rep < 6; rep++ {
				b := r.bytes(blen)
				before := append([]byte{}, b...)
				v := ints[r.intn(len(ints))]
				w := int64(0)
				var s []byte
				var f func()
				switch kind {
				case 0:
					v &= 1
					f = func() { enc.EncodeBool(b, v == 1) }
				case 1:
					v = int64(uint8(v))
					f = func() { enc.EncodeByte(b, byte(v)) }
				case 2:
					v = int64(int16(v))
					f = func() { enc.EncodeInt16(b, int16(v)) }
				case 3:
					v = int64(int32(v))
					f = func() { enc.EncodeInt32(b, int32(v)) }
				case 4:
					f = func() { enc.EncodeInt64(b, v) }
				case 5:
					bits := uint64(v)
					f = func() { enc.EncodeDouble(b, math.Float64frombits(bits)) }
					if math.IsNaN(math.Float64frombits(bits)) {
						v = 0x3ff0000000000000 // NaN payloads are not guaranteed to survive a float64 round trip
						f = func() { enc.EncodeDouble(b, 1.0) }
					}
				case 6:
					s = strs[r.intn(len(strs))]
					f = func() { enc.EncodeString(b, string(s)) }
				case 7:
					s = strs[r.intn(len(strs))]
					f = func() { enc.EncodeBinary(b, s) }
				case 8:
					v = int64(uint8(v))
					w = int64(uint16(r.next()))
					f = func() { enc.EncodeFieldBegin(b, thrift.Type(v), thrift.FieldID(w)) }
				}
				ok, _ := noPanic(f)
				if kind == 5 {
					out.emit(1991, fi(kind), fx(before), fu(uint64(v)), fn(w), fx(s), fi(b2i(!ok)), fx(b))
				} else {
					out.emit(1991, fi(kind), fx(before), fn(v), fn(w), fx(s), fi(b2i(!ok)), fx(b))
				}
			}
		}
	}
	// 1992
	types := []int64{0, 1, 2, 3, 4, 6, 8, 10, 11, 12, 13, 14, 15, 16, 17, 5, 255}
	sizes := []int64{0, 1, 255, 256, 65536, 1<<31 - 1, -1, int64(int32(r.next()))}
	emitW := func(kind int, name []byte, a, b, c int64, f func(p *thrift.BinaryProtocol) error) {
		p := thrift.NewBinaryProtocolBuffer()
		err := f(p)
		out.emit(1992, fi(kind), fx(name), fn(a), fn(b), fn(c), fx(append([]byte{}, p.Buf...)), fi(b2i(err != nil)))
		thrift.FreeBinaryProtocolBuffer(p)
	}
	for _, name := range strs {
		for _, ty := range []int64{0, 1, 2, 3, 4, 5, 255, 256, 65535} {
			for _, seq := range sizes {
				nm, a, b := name, ty, seq
				emitW(10, nm, a, b, 0, func(p *thrift.BinaryProtocol) error { return p.WriteMessageBegin(string(nm), thrift.TMessageType(a), int32(b)) })
			}
		}
	}
	for _, t := range types {
		for _, id := range []int64{0, 1, 255, 256, 32767, 32768, 65535, int64(uint16(r.next()))} {
			a, b := t, id
			emitW(11, nil, a, b, 0, func(p *thrift.BinaryProtocol) error { return p.WriteFieldBegin("x", thrift.Type(a), thrift.FieldID(b)) })
		}
		for _, sz := range sizes {
			a, b := t, sz
			emitW(14, nil, a, b, 0, func(p *thrift.BinaryProtocol) error { return p.WriteListBegin(thrift.Type(a), int(b)) })
			emitW(15, nil, a, b, 0, func(p *thrift.BinaryProtocol) error { return p.WriteSetBegin(thrift.Type(a), int(b)) })
			vt := types[r.intn(len(types))]
			emitW(13, nil, a, vt, b, func(p *thrift.BinaryProtocol) error { return p.WriteMapBegin(thrift.Type(a), thrift.Type(vt), int(b)) })
		}
	}
	emitW(12, nil, 0, 0, 0, func(p *thrift.BinaryProtocol) error { return p.WriteFieldStop() })
	// 1993: valid headers, every truncation of them, headers with a wrong version / type / negative size, random bytes
	var bufs [][]byte
	for _, name := range strs[:4] {
		for _, ty := range []int64{1, 2, 3, 4, 0, 255} {
			p := thrift.NewBinaryProtocolBuffer()
			p.WriteMessageBegin(string(name), thrift.TMessageType(ty), int32(r.next()))
			p.WriteFieldBegin("", thrift.STRUCT, 1)
			h := append([]byte{}, p.Buf...)
			thrift.FreeBinaryProtocolBuffer(p)
			bufs = append(bufs, h)
			for cut := 0; cut < len(h); cut++ {
				if cut < 14 || r.chance(30) {
					bufs = append(bufs, h[:cut])
				}
			}
			for k := 0; k < 6; k++ { // corrupt one of the first 8 bytes (version / type / name length)
				m := append([]byte{}, h...)
				m[r.intn(8)] ^= byte(1 << uint(r.intn(8)))
				bufs = append(bufs, m)
			}
		}
	}
	for _, t := range types {
		for _, sz := range sizes {
			b4 := []byte{byte(sz >> 24), byte(sz >> 16), byte(sz >> 8), byte(sz)}
			vt := types[r.intn(len(types))]
			bufs = append(bufs, append([]byte{byte(t)}, b4...), append([]byte{byte(t), byte(vt)}, b4...), append([]byte{byte(t), b4[2], b4[3]}, r.bytes(2)...))
		}
	}
	for k := 0; k < 200; k++ {
		bufs = append(bufs, r.bytes(r.intn(14)))
	}
	for _, buf := range bufs {
		for kind := 20; kind <= 24; kind++ {
			for cp := 0; cp < 2; cp++ {
				if cp == 1 && kind != 20 {
					continue
				}
				p := thrift.NewBinaryProtocol(append([]byte{}, buf...))
				var name string
				var r1, r2, r3 int64
				var err error
				switch kind {
				case 20:
					var ty thrift.TMessageType
					var seq int32
					name, ty, seq, err = p.ReadMessageBegin(cp == 1)
					r1, r2 = int64(ty), int64(seq)
				case 21:
					var ty thrift.Type
					var id thrift.FieldID
					name, ty, id, err = p.ReadFieldBegin()
					r1, r2 = int64(ty), int64(id)
				case 22:
					var kt, vt thrift.Type
					var sz int
					kt, vt, sz, err = p.ReadMapBegin()
					r1, r2, r3 = int64(kt), int64(vt), int64(sz)
				case 23:
					var et thrift.Type
					var sz int
					et, sz, err = p.ReadListBegin()
					r1, r2 = int64(et), int64(sz)
				case 24:
					var et thrift.Type
					var sz int
					et, sz, err = p.ReadSetBegin()
					r1, r2 = int64(et), int64(sz)
				}
				out.emit(1993, fi(kind), fx(buf), fi(cp), fs(name), fn(r1), fn(r2), fn(r3), fi(b2i(err != nil)), fi(p.Read))
				p.Recycle()
			}
		}
	}
}
