//go:build verif

package main

import (
	"fmt"
	"strings"

	"github.com/cloudwego/dynamicgo/conv"
	"github.com/cloudwego/dynamicgo/conv/j2t"
	"github.com/cloudwego/dynamicgo/meta"
	"github.com/cloudwego/dynamicgo/thrift"
)

// hand-built descriptor shapes for the size / depth / cache classes of C02

// a descriptor whose top-level type is not a struct
func c02RootOnly(r *rng, root *Ty) *c02gen {
	c := c02Manual(r)
	c.root = root
	c.pTypedef = 35
	return c
}

func c02Manual(r *rng, structs ...*Ty) *c02gen {
	c := &c02gen{r: r, g: newTgen(r.fork()), alias: map[*Fld]string{}, annot: map[*Fld]string{}, vm: map[*Fld]bool{}, sdesc: map[*Ty]*thrift.StructDescriptor{}}
	c.g.structs = structs
	if len(structs) > 0 {
		c.root = structs[0]
	}
	return c
}

func sc(k thrift.Type) *Ty { return &Ty{K: k} }

// struct R { 1: optional R r; 2: optional list<R> l; 3: optional map<string,R> m; 4: optional i32 x; 32767: optional R big }
func c02RecShape(r *rng, big bool) *c02gen {
	R := &Ty{K: thrift.STRUCT, Name: "R"}
	R.Fields = []*Fld{
		{ID: 1, Name: "r", T: R, Req: 2},
		{ID: 2, Name: "l", T: &Ty{K: thrift.LIST, Elem: R}, Req: 2},
		{ID: 3, Name: "m", T: &Ty{K: thrift.MAP, Key: sc(thrift.STRING), Elem: R}, Req: 2},
		{ID: 4, Name: "x", T: sc(thrift.I32), Req: 2},
	}
	if big { // 512-word requires bitmap per open struct: the 4096-byte bitmap cache overflows at the second level
		// (not used for the depth class: GrowReqCache grows linearly, 4000 nested levels cost seconds)
		R.Fields = append(R.Fields, &Fld{ID: 32767, Name: "big", T: R, Req: 2})
	}
	return c02Manual(r, R)
}

// struct Dn { 1: list<i64> a; 2: list<double> d; 3: map<i64,i64> m; 4: set<i32> s; 5: map<i32,bool> mb; 6: list<list<i64>> ll }
func c02DenseShape(r *rng) *c02gen {
	D := &Ty{K: thrift.STRUCT, Name: "Dn"}
	D.Fields = []*Fld{
		{ID: 1, Name: "a", T: &Ty{K: thrift.LIST, Elem: sc(thrift.I64)}},
		{ID: 2, Name: "d", T: &Ty{K: thrift.LIST, Elem: sc(thrift.DOUBLE)}},
		{ID: 3, Name: "m", T: &Ty{K: thrift.MAP, Key: sc(thrift.I64), Elem: sc(thrift.I64)}},
		{ID: 4, Name: "s", T: &Ty{K: thrift.SET, Elem: sc(thrift.I32)}},
		{ID: 5, Name: "mb", T: &Ty{K: thrift.MAP, Key: sc(thrift.I32), Elem: sc(thrift.BOOL)}},
		{ID: 6, Name: "ll", T: &Ty{K: thrift.LIST, Elem: &Ty{K: thrift.LIST, Elem: sc(thrift.I64)}}},
	}
	return c02Manual(r, D)
}

// struct B { 1: list<string> ls; 2: string s; 3: map<string,i32> m; 4: binary b; 5: list<i32> li; 6: map<string,string> mss }
func c02BigShape(r *rng) *c02gen {
	B := &Ty{K: thrift.STRUCT, Name: "B"}
	B.Fields = []*Fld{
		{ID: 1, Name: "ls", T: &Ty{K: thrift.LIST, Elem: sc(thrift.STRING)}, Req: 2},
		{ID: 2, Name: "s", T: sc(thrift.STRING), Req: 2},
		{ID: 3, Name: "m", T: &Ty{K: thrift.MAP, Key: sc(thrift.STRING), Elem: sc(thrift.I32)}, Req: 2},
		{ID: 4, Name: "b", T: &Ty{K: thrift.STRING, Binary: true}, Req: 2},
		{ID: 5, Name: "li", T: &Ty{K: thrift.LIST, Elem: sc(thrift.I32)}, Req: 2},
		{ID: 6, Name: "mss", T: &Ty{K: thrift.MAP, Key: sc(thrift.STRING), Elem: sc(thrift.STRING)}, Req: 2},
	}
	return c02Manual(r, B)
}

func (c *c02gen) fieldByName(t *Ty, name string) *Fld {
	for _, f := range t.Fields {
		if f.Name == name {
			return f
		}
	}
	return nil
}

func (c *c02gen) sval(t *Ty, names []string, vals []*Val) *Val {
	v := &Val{T: t}
	for i, n := range names {
		f := c.fieldByName(t, n)
		v.FIDs = append(v.FIDs, f.ID)
		v.Fields = append(v.Fields, vals[i])
	}
	return v
}

func ival(k thrift.Type, x int64) *Val { return &Val{T: sc(k), I: x} }

// a chain of nested R values: levels[i] in {'r','l','m','b'} from the outside in, innermost an empty struct or {x:1}
func (c *c02gen) recChain(levels string, leaf bool) *Val {
	R := c.root
	var inner *Val
	if leaf {
		inner = c.sval(R, []string{"x"}, []*Val{ival(thrift.I32, 1)})
	} else {
		inner = &Val{T: R}
	}
	for i := len(levels) - 1; i >= 0; i-- {
		switch levels[i] {
		case 'r':
			inner = c.sval(R, []string{"r"}, []*Val{inner})
		case 'b':
			inner = c.sval(R, []string{"big"}, []*Val{inner})
		case 'l':
			f := c.fieldByName(R, "l")
			inner = c.sval(R, []string{"l"}, []*Val{{T: f.T, Elems: []*Val{inner}}})
		default:
			f := c.fieldByName(R, "m")
			inner = c.sval(R, []string{"m"}, []*Val{{T: f.T, Keys: []*Val{{T: f.T.Key, S: []byte("k")}}, Elems: []*Val{inner}}})
		}
	}
	return inner
}

func (c *c02gen) prepare() (*thrift.TypeDescriptor, []string) {
	idl := c.idl()
	desc, err := parseThrift(idl, thrift.Options{MapFieldWay: meta.MapFieldUseAlias})
	if err != nil {
		die("C02: special IDL does not parse: %v\n%s", err, idl)
	}
	c.checkAliases(c.root, desc, map[*Ty]bool{})
	return desc, c.descFields()
}

func (c *c02gen) runDoc(r *rng, desc *thrift.TypeDescriptor, dfs []string, optBits int, doc []byte, keys []c02skey, full bool) {
	opts := conv.Options{DisallowUnknownField: optBits&1 != 0, String2Int64: optBits&2 != 0, NoBase64Binary: optBits&4 != 0, EnableValueMapping: optBits&8 != 0}
	cv := c02Conv(r, opts, desc, []byte("{}"))
	c.emit(optBits, c.oobLookups(keys), doc, c02Run(r, &cv, desc, doc, full), dfs)
	c02EmitPortable(optBits, doc, desc, dfs)
}

func (c *c02gen) printVal(r *rng, optBits int, v *Val, style int) *c02printer {
	opts := conv.Options{DisallowUnknownField: optBits&1 != 0, String2Int64: optBits&2 != 0, NoBase64Binary: optBits&4 != 0, EnableValueMapping: optBits&8 != 0}
	p := &c02printer{c: c, r: r.fork(), opts: opts, vmOn: optBits&8 != 0, mutateAt: -1}
	switch style {
	case 0:
		p.canonical = true
	case 1:
		p.pWs, p.pEsc, p.pNum = 5, 5, 20
	default:
		p.pWs, p.pEsc, p.pNum, p.pNull, p.pUnknown = 25, 30, 60, 10, 10
	}
	p.val(v)
	return p
}

// returns the number of cases emitted
func genC02Special(r *rng, class int) int {
	n := 0
	switch class {
	case 0: // deep nesting around the 4095-level limit (native stack of 4096 states)
		c := c02RecShape(r.fork(), false)
		desc, dfs := c.prepare()
		kinds := []string{"r", "l", "m", "rl", "lm", "rm"}
		for _, lv := range []int{4090, 4093, 4094, 4095, 4096, 4100} {
			pat := kinds[r.intn(len(kinds))]
			// levels counts JSON nesting levels: 'r' adds one, 'l' and 'm' add two
			var sb strings.Builder
			depth := 1 // the root object
			for depth < lv {
				ch := pat[r.intn(len(pat))]
				add := 1
				if ch != 'r' {
					add = 2
				}
				if depth+add > lv {
					ch, add = 'r', 1
				}
				sb.WriteByte(ch)
				depth += add
			}
			v := c.recChain(sb.String(), r.bool())
			p := c.printVal(r, 0, v, r.intn(2))
			c.runDoc(r, desc, dfs, 0, p.sb, p.skeys, false)
			n++
		}
	case 1: // requires-bitmap cache (4096 bytes): nested structs whose bitmap has 512 words
		c := c02RecShape(r.fork(), true)
		desc, dfs := c.prepare()
		for k := 0; k < 4; k++ {
			var sb strings.Builder
			for i, d := 0, 2+r.intn(12); i < d; i++ {
				sb.WriteByte("brlmb"[r.intn(5)])
			}
			v := c.recChain(sb.String(), true)
			p := c.printVal(r, 0, v, r.intn(3))
			c.runDoc(r, desc, dfs, 0, p.sb, p.skeys, true)
			n++
		}
	case 2: // dense documents: output several times larger than the text -> every ERR_OOM_BUF resumption point in the sweep
		c := c02DenseShape(r.fork())
		desc, dfs := c.prepare()
		for k := 0; k < 4; k++ {
			D := c.root
			v := &Val{T: D}
			for _, i := range r.permN(len(D.Fields)) {
				f := D.Fields[i]
				if r.chance(35) {
					continue
				}
				fv := &Val{T: f.T}
				cnt := 1 + r.intn(12)
				if r.chance(10) {
					cnt = 80 + r.intn(200)
				}
				small := func(t *Ty) *Val {
					switch t.K {
					case thrift.DOUBLE:
						return &Val{T: t, D: []uint64{0, 0x3ff0000000000000, 0x4000000000000000, 0x4014000000000000, 0xbff0000000000000}[r.intn(5)]}
					case thrift.BOOL:
						return &Val{T: t, I: int64(r.intn(2))}
					}
					return &Val{T: t, I: int64(r.intn(10))}
				}
				for j := 0; j < cnt; j++ {
					switch f.T.K {
					case thrift.MAP:
						fv.Keys = append(fv.Keys, &Val{T: f.T.Key, I: int64(j)})
						fv.Elems = append(fv.Elems, small(f.T.Elem))
					default:
						if f.T.Elem.K == thrift.LIST {
							in := &Val{T: f.T.Elem}
							for q := r.intn(4); q > 0; q-- {
								in.Elems = append(in.Elems, small(f.T.Elem.Elem))
							}
							fv.Elems = append(fv.Elems, in)
						} else {
							fv.Elems = append(fv.Elems, small(f.T.Elem))
						}
					}
				}
				v.FIDs = append(v.FIDs, f.ID)
				v.Fields = append(v.Fields, fv)
			}
			ob := 0
			if r.chance(30) {
				ob = 2
			}
			p := c.printVal(r, ob, v, 0)
			c.runDoc(r, desc, dfs, ob, p.sb, p.skeys, true)
			n++
		}
	case 3: // large documents: >> 4096 bytes of text and output, long strings / keys with and without escapes
		c := c02BigShape(r.fork())
		desc, dfs := c.prepare()
		B := c.root
		long := func(nb int, esc bool) []byte {
			var b []byte
			for len(b) < nb {
				if esc && r.chance(10) {
					b = append(b, c02Pieces[r.intn(len(c02Pieces))]...)
				} else {
					b = append(b, byte('a'+r.intn(26)))
				}
			}
			return b
		}
		for k := 0; k < 2; k++ {
			v := &Val{T: B}
			add := func(name string, fv *Val) {
				f := c.fieldByName(B, name)
				fv.T = f.T
				v.FIDs = append(v.FIDs, f.ID)
				v.Fields = append(v.Fields, fv)
			}
			if r.chance(60) {
				fv := &Val{}
				for i, cnt := 0, 100+r.intn(900); i < cnt; i++ {
					fv.Elems = append(fv.Elems, &Val{T: sc(thrift.STRING), S: c.str()})
				}
				add("ls", fv)
			}
			if r.chance(60) {
				add("s", &Val{S: long(3000+r.intn(9000), r.bool())})
			}
			if r.chance(60) { // keys longer than the 1024-byte key cache (escaped ones are unquoted into it: ERR_OOM_KEY)
				fv := &Val{}
				for i, cnt := 0, 1+r.intn(4); i < cnt; i++ {
					kb := long(900+r.intn(1500), r.bool())
					kb = append(kb, byte('0'+i))
					fv.Keys = append(fv.Keys, &Val{T: sc(thrift.STRING), S: kb})
					fv.Elems = append(fv.Elems, ival(thrift.I32, int64(i)))
				}
				add("m", fv)
			}
			if r.chance(50) {
				add("b", &Val{S: r.bytes(2000 + r.intn(6000))})
			}
			if r.chance(50) {
				fv := &Val{}
				for i, cnt := 0, 400+r.intn(1500); i < cnt; i++ {
					fv.Elems = append(fv.Elems, ival(thrift.I32, int64(int32(r.u64()))))
				}
				add("li", fv)
			}
			if r.chance(40) {
				fv := &Val{}
				for i, cnt := 0, 50+r.intn(200); i < cnt; i++ {
					fv.Keys = append(fv.Keys, &Val{T: sc(thrift.STRING), S: []byte(fmt.Sprintf("key-%d-%s", i, string(c.str())))})
					fv.Elems = append(fv.Elems, &Val{T: sc(thrift.STRING), S: c.str()})
				}
				add("mss", fv)
			}
			ob := []int{0, 4, 1}[r.intn(3)]
			p := c.printVal(r, ob, v, 1+r.intn(2))
			c.runDoc(r, desc, dfs, ob, p.sb, p.skeys, true)
			n++
		}
	case 5: // top-level NON-STRUCT descriptors x {as is, leading blanks, trailing blanks, both, trailing bytes, truncated inside the value}
		//         (+ for STRING / binary: the documented unquoted-text special case)
		roots := []*Ty{sc(thrift.STRING), {K: thrift.STRING, Binary: true}, sc(thrift.STRING),
			{K: thrift.LIST, Elem: sc(thrift.I32)}, {K: thrift.LIST, Elem: sc(thrift.STRING)}, {K: thrift.SET, Elem: sc(thrift.I64)},
			{K: thrift.MAP, Key: sc(thrift.STRING), Elem: sc(thrift.I32)}, {K: thrift.MAP, Key: sc(thrift.I32), Elem: sc(thrift.STRING)},
			{K: thrift.LIST, Elem: &Ty{K: thrift.STRING, Binary: true}},
			sc(thrift.I32), sc(thrift.I64), sc(thrift.DOUBLE), sc(thrift.BOOL), sc(thrift.I08), sc(thrift.I16)}
		root := roots[r.intn(len(roots))]
		c := c02RootOnly(r.fork(), root)
		desc, dfs := c.prepare()
		blanks := func() []byte {
			var b []byte
			for k := 1 + r.intn(4); k > 0; k-- {
				b = append(b, " \t\n\r"[r.intn(4)])
			}
			return b
		}
		cat := func(parts ...[]byte) []byte {
			var b []byte
			for _, x := range parts {
				b = append(b, x...)
			}
			return b
		}
		for k := 0; k < 2; k++ {
			ob := []int{0, 0, 2, 4}[r.intn(4)]
			v := c.value(root, 0)
			p := c.printVal(r, ob, v, r.intn(3))
			doc := append([]byte(nil), p.sb...)
			variants := [][]byte{doc, cat(blanks(), doc), cat(doc, blanks()), cat(blanks(), doc, blanks()),
				cat(doc, []byte([]string{"x", ",", "]", "}", "\"", "\x00", " 1"}[r.intn(7)]))}
			for j := 0; j < 4 && len(doc) > 0; j++ { // truncated inside the value (also with trailing blanks after the cut)
				cut := r.intn(len(doc))
				if j == 0 {
					cut = len(doc) - 1
				}
				t := append([]byte(nil), doc[:cut]...)
				if r.chance(30) {
					t = cat(t, blanks())
				}
				variants = append(variants, t)
			}
			if root.K == thrift.STRING && len(doc) > 2 { // a literal cut off so that its body is a multiple of 32 bytes (finding 213)
				t := append([]byte(nil), doc[:len(doc)-1]...)
				for (len(t)-1)%32 != 0 {
					t = append(t, byte('a'+r.intn(26)))
				}
				variants = append(variants, t)
			}
			if root.K == thrift.STRING { // unquoted text for a STRING / binary descriptor: the whole text is the string
				raws := [][]byte{[]byte("abc"), []byte("a\"b\\c"), []byte("null"), []byte("12"), []byte(" \"abc\""), []byte("aGVsbG8="), []byte("aGVsbG8"), []byte("a\nb\x01"),
					[]byte("{\"a\":1}"), c.str(), r.bytes(1 + r.intn(20)), []byte("abc\""), []byte("x\"abc\"")}
				variants = append(variants, raws[r.intn(len(raws))], raws[r.intn(len(raws))])
			}
			for _, d := range variants {
				c.runDoc(r, desc, dfs, ob, d, nil, len(d) < 200 && r.chance(30))
				n++
			}
		}
	case 6: // write options x documents whose LAST member is null x every capacity: model-free check 202 (capacity independence only;
		// what is filled in for absent fields is C16's subject)
		WI := &Ty{K: thrift.STRUCT, Name: "WI"}
		WI.Fields = []*Fld{{ID: 1, Name: "x", T: sc(thrift.I32)}, {ID: 2, Name: "s", T: sc(thrift.STRING)}}
		W := &Ty{K: thrift.STRUCT, Name: "W"}
		W.Fields = []*Fld{
			{ID: 1, Name: "a", T: sc(thrift.I64)}, {ID: 2, Name: "s", T: sc(thrift.STRING)}, {ID: 3, Name: "l", T: &Ty{K: thrift.LIST, Elem: sc(thrift.I32)}},
			{ID: 4, Name: "in", T: WI}, {ID: 5, Name: "o", T: sc(thrift.I32), Req: 2}, {ID: 6, Name: "os", T: sc(thrift.STRING), Req: 2},
			{ID: 7, Name: "d", T: sc(thrift.DOUBLE)}, {ID: 8, Name: "m", T: &Ty{K: thrift.MAP, Key: sc(thrift.STRING), Elem: sc(thrift.I32)}},
			{ID: 9, Name: "rq", T: sc(thrift.I32), Req: 1},
		}
		c := c02Manual(r.fork(), W, WI)
		desc, dfs6 := c.prepare()
		docs := []string{`{"a":null}`, `{"s":"x","a":null}`, `{"in":{"x":null}}`, `{"in":{"s":"q","x":null},"a":null}`, `{"o":null}`, `{"a":1,"o":null}`,
			`{"a":null,"s":"x"}`, `{}`, `{"in":{},"d":null}`, `{"l":[1,2],"m":{"k":null},"s":null}`, `{"rq":1,"a":null}`, `{"rq":null}`, `{"in":{"x":null},"rq":2}`,
			`{"a":null }`, `{"zz":1,"a":null}`, `{"a":null,"zz":null}`, `{"l":null}`, `{"in":null}`, `{"in":{"x":1,"s":null}}`}
		for k := 0; k < 5; k++ {
			doc := []byte(docs[r.intn(len(docs))])
			if r.chance(30) {
				doc = append([]byte(strings.Repeat(" ", r.intn(6))), doc...)
			}
			wb := []int{16, 32, 64, 16 | 64, 16 | 32 | 64, 0, 16, 16 | 32}[r.intn(8)]
			opts := conv.Options{WriteDefaultField: wb&16 != 0, WriteRequireField: wb&32 != 0, WriteOptionalField: wb&64 != 0}
			cv := j2t.NewBinaryConv(opts)
			res := c02Run(r, &cv, desc, doc, true)
			f := []string{fi(wb), fx(doc), fi(len(res))}
			for _, x := range res {
				f = append(f, fi(x.cap), fx(x.pre), fi(x.ec), fx(x.out))
			}
			out.emit(202, f...)
			c02EmitPortable(wb<<0, doc, desc, dfs6)
			n++
		}
	case 7: // member lookup by name through the NATIVE trie / hash map: aliases with bytes below '.' and above 'z', the special byte
		// at every position, key sets in the trie regime (few keys) and in the hash regime (>= 20 keys over a 2-letter alphabet)
		specials := " !#$%&'()*+,-{|}~"
		S := &Ty{K: thrift.STRUCT, Name: "K"}
		c := c02Manual(r.fork(), S)
		used := map[string]bool{}
		addField := func(alias string) {
			if used[alias] || alias == "" {
				return
			}
			used[alias] = true
			id := int16(len(S.Fields) + 1)
			t := sc([]thrift.Type{thrift.I32, thrift.STRING, thrift.BOOL, thrift.I64}[r.intn(4)])
			f := &Fld{ID: id, Name: fmt.Sprintf("f%d", id), T: t, Req: 2}
			S.Fields = append(S.Fields, f)
			c.alias[f] = alias
			c.annot[f] = fmt.Sprintf(" (api.key = \"%s\")", alias)
		}
		sp := specials[r.intn(len(specials))]
		switch r.intn(3) {
		case 0: // hash regime: many keys over {letter, special}
			other := byte('a' + r.intn(26))
			for tries := 0; len(S.Fields) < 20+r.intn(9) && tries < 400; tries++ {
				b := make([]byte, 5+r.intn(2))
				for i := range b {
					b[i] = other
					if r.bool() {
						b[i] = sp
					}
				}
				addField(string(b))
			}
		case 1: // trie regime: words joined by the special byte (first-name, e-mail, created-at, ...)
			words := []string{"first", "last", "e", "mail", "name", "id", "age", "created", "updated", "at", "x", "zip", "code"}
			for k := 3 + r.intn(6); k > 0; k-- {
				a := words[r.intn(len(words))]
				for q := r.intn(3); q > 0; q-- {
					a += string(sp) + words[r.intn(len(words))]
				}
				addField(a)
			}
		default: // random short keys over the whole alphabet
			alpha := specials + "./09AZaz_"
			for k := 2 + r.intn(8); k > 0; k-- {
				b := make([]byte, 1+r.intn(6))
				for i := range b {
					b[i] = alpha[r.intn(len(alpha))]
				}
				addField(string(b))
			}
		}
		if len(S.Fields) == 0 {
			addField("a" + string(sp))
		}
		desc, dfs := c.prepare()
		for k := 0; k < 4; k++ {
			ob := []int{0, 0, 1, 2}[r.intn(4)]
			v := c.value(S, 0)
			p := c.printVal(r, ob, v, r.intn(3))
			c.runDoc(r, desc, dfs, ob, p.sb, p.skeys, false)
			n++
		}
	case 4: // hand-written deviations and malformed texts on a fixed shape (each line: option bits, text)
		c := c02newFixed(r.fork())
		desc, dfs := c.prepare()
		for _, t := range c02FixedTexts {
			c.runDoc(r, desc, dfs, t.ob, []byte(t.text), nil, false)
			n++
		}
	}
	return n
}

// struct F { 1: optional i32 i; 2: optional string s; 3: optional binary b; 4: optional map<i32,string> mi; 5: optional map<double,bool> md;
//            6: optional list<i64> l; 7: optional F f; 8: optional byte y; 9: optional double d; 10: optional bool t; 11: optional map<string,i32> ms }
func c02newFixed(r *rng) *c02gen {
	F := &Ty{K: thrift.STRUCT, Name: "F"}
	F.Fields = []*Fld{
		{ID: 1, Name: "i", T: sc(thrift.I32), Req: 2},
		{ID: 2, Name: "s", T: sc(thrift.STRING), Req: 2},
		{ID: 3, Name: "b", T: &Ty{K: thrift.STRING, Binary: true}, Req: 2},
		{ID: 4, Name: "mi", T: &Ty{K: thrift.MAP, Key: sc(thrift.I32), Elem: sc(thrift.STRING)}, Req: 2},
		{ID: 5, Name: "md", T: &Ty{K: thrift.MAP, Key: sc(thrift.DOUBLE), Elem: sc(thrift.BOOL)}, Req: 2},
		{ID: 6, Name: "l", T: &Ty{K: thrift.LIST, Elem: sc(thrift.I64)}, Req: 2},
		{ID: 7, Name: "f", T: F, Req: 2},
		{ID: 8, Name: "y", T: sc(thrift.I08), Req: 2},
		{ID: 9, Name: "d", T: sc(thrift.DOUBLE), Req: 2},
		{ID: 10, Name: "t", T: sc(thrift.BOOL), Req: 2},
		{ID: 11, Name: "ms", T: &Ty{K: thrift.MAP, Key: sc(thrift.STRING), Elem: sc(thrift.I32)}, Req: 2},
		{ID: 12, Name: "vl", T: sc(thrift.I64), Req: 2},
		{ID: 13, Name: "vh", T: sc(thrift.I16), Req: 2},
		{ID: 14, Name: "vs", T: sc(thrift.STRING), Req: 2},
		{ID: 15, Name: "vd", T: sc(thrift.DOUBLE), Req: 2},
		{ID: 16, Name: "vt", T: sc(thrift.BOOL), Req: 2},
		{ID: 17, Name: "vy", T: sc(thrift.I08), Req: 2},
		{ID: 18, Name: "vi", T: sc(thrift.I32), Req: 2},
	}
	c := c02Manual(r, F)
	for _, f := range F.Fields[11:] {
		c.vm[f] = true
		c.annot[f] = " (api.js_conv = \"true\")"
	}
	return c
}

type c02fixed struct {
	ob   int
	text string
}

var c02FixedTexts = []c02fixed{
	// top-level null / literals / wrong top-level kinds
	{0, "null"}, {0, " null "}, {0, "nul"}, {0, "true"}, {0, "[]"}, {0, "1"}, {0, "\"x\""}, {0, " "}, {0, "\n"},
	// raw control characters inside strings (accepted by the code)
	{0, "{\"s\":\"a\nb\"}"}, {0, "{\"s\":\"tab\there\"}"}, {0, "{\"s\":\"\x01\"}"}, {0, "{\"ms\":{\"k\x02\":1}}"}, {0, "{\"zz\":\"\x1f\",\"i\":1}"},
	// number-typed map keys with trailing garbage
	{0, "{\"mi\":{\"1x\":\"a\"}}"}, {0, "{\"mi\":{\"01\":\"a\"}}"}, {0, "{\"mi\":{\"1 \":\"a\"}}"}, {0, "{\"mi\":{\"1.0\":\"a\",\"1e1\":\"b\"}}"}, {0, "{\"md\":{\"1.5abc\":true}}"},
	{0, "{\"mi\":{\"\":\"a\"}}"}, {0, "{\"mi\":{\" 1\":\"a\"}}"}, {0, "{\"mi\":{\"+1\":\"a\"}}"}, {0, "{\"mi\":{\"-\":\"a\"}}"}, {0, "{\"mi\":{\"1e\":\"a\"}}"}, {0, "{\"mi\":{\"x\":null}}"},
	{0, "{\"mi\":{\"2147483648\":\"a\"}}"}, {0, "{\"mi\":{\"-2147483648\":\"a\",\"2147483647\":\"b\"}}"},
	// escapes: lone / reversed surrogates, bad escapes, short \u
	{0, "{\"s\":\"\\ud83d\"}"}, {0, "{\"s\":\"\\ude00\"}"}, {0, "{\"s\":\"\\ude00\\ud83d\"}"}, {0, "{\"s\":\"\\ud83d\\u0041\"}"}, {0, "{\"s\":\"\\ud83dx\"}"},
	{0, "{\"s\":\"\\x\"}"}, {0, "{\"s\":\"\\u12\"}"}, {0, "{\"s\":\"\\u12G4\"}"}, {0, "{\"s\":\"\\\"}"}, {0, "{\"s\":\"\\uD83D\\uDE00\\uD834\\uDD1E\"}"}, {0, "{\"s\":\"\\u0000\\u007f\\u0080\\u07ff\\u0800\\uffff\"}"},
	{0, "{\"\\ud83d\":1}"}, {0, "{\"ms\":{\"\\ud83d\":1}}"}, {0, "{\"ms\":{\"\\uD83D\\uDE00\":1,\"\\/\":2}}"},
	// numbers: grammar
	{0, "{\"i\":01}"}, {0, "{\"i\":1.}"}, {0, "{\"i\":.5}"}, {0, "{\"i\":+1}"}, {0, "{\"i\":1e}"}, {0, "{\"i\":-}"}, {0, "{\"i\":0x10}"}, {0, "{\"i\":1e+}"}, {0, "{\"i\":--1}"}, {0, "{\"i\":1E+2}"},
	{0, "{\"i\":-0}"}, {0, "{\"i\":-0.0}"}, {0, "{\"i\":0e9}"}, {0, "{\"d\":-0}"}, {0, "{\"d\":-0.0}"}, {0, "{\"d\":-0e0}"}, {0, "{\"d\":1e400}"}, {0, "{\"d\":1e-400}"}, {0, "{\"d\":4.9e-324}"}, {0, "{\"d\":2.4703282292062327e-324}"}, {0, "{\"d\":2.4703282292062328e-324}"},
	{0, "{\"d\":1.7976931348623157e308}"}, {0, "{\"d\":1.7976931348623158e308}"}, {0, "{\"d\":1.797693134862315807e308}"}, {0, "{\"d\":1.797693134862315808e308}"},
	{0, "{\"d\":9007199254740993}"}, {0, "{\"d\":9007199254740992.5}"}, {0, "{\"d\":9007199254740993.000000000000000000000001}"}, {0, "{\"d\":18446744073709551615}"}, {0, "{\"d\":18446744073709551616}"}, {0, "{\"d\":123456789012345678901234567890}"},
	{0, "{\"d\":0.000000000000000000000000000000000000000000000000000000000000000000000000000001e78}"}, {0, "{\"d\":1e0000000000000000000000000000000000000000000001}"}, {0, "{\"d\":1e99999999999999999999}"}, {0, "{\"d\":1e-99999999999999999999}"}, {0, "{\"d\":0e99999999999999999999}"},
	{0, "{\"l\":[9223372036854775807,-9223372036854775808,9223372036854775808,-9223372036854775809]}"}, {0, "{\"l\":[9.223372036854775807e18]}"}, {0, "{\"l\":[9007199254740993.0,9007199254740992.0,-9007199254740993e0]}"}, {0, "{\"l\":[1e18,1e19,123e16]}"},
	{0, "{\"y\":127}"}, {0, "{\"y\":128}"}, {0, "{\"y\":-128}"}, {0, "{\"y\":-129}"}, {0, "{\"y\":255}"}, {0, "{\"y\":1.27e2}"}, {0, "{\"y\":1280e-1}"}, {0, "{\"y\":1e10}"}, {0, "{\"y\":0.5}"}, {0, "{\"y\":-0.9}"},
	// String2Int64
	{2, "{\"i\":\"1\"}"}, {2, "{\"i\":\"1 \"}"}, {2, "{\"i\":\" 1\"}"}, {2, "{\"i\":\"\"}"}, {2, "{\"i\":\"1.0\"}"}, {2, "{\"i\":\"1e2\"}"}, {2, "{\"i\":\"\\u0031\"}"}, {2, "{\"i\":\"01\"}"}, {2, "{\"i\":\"x\"}"}, {2, "{\"t\":\"true\"}"}, {2, "{\"d\":\"1.5\",\"y\":\"7\",\"l\":[\"1\",2]}"}, {2, "{\"i\":\"2147483648\"}"}, {2, "{\"s\":\"12\"}"}, {2, "{\"mi\":{\"1\":\"1\"}}"},
	{0, "{\"i\":\"1\"}"}, {0, "{\"d\":\"1\"}"},
	// base64
	{0, "{\"b\":\"\"}"}, {0, "{\"b\":\"/w==\"}"}, {0, "{\"b\":\"\\/w==\"}"}, {0, "{\"b\":\"/x==\"}"}, {0, "{\"b\":\"_w==\"}"}, {0, "{\"b\":\"aGVsbG8\"}"}, {0, "{\"b\":\"aGVsbA=\"}"}, {0, "{\"b\":\"aGVs bG8=\"}"}, {0, "{\"b\":\"a\"}"}, {0, "{\"b\":\"====\"}"}, {0, "{\"b\":\"aGVsbG8=aGVsbG8=\"}"}, {0, "{\"b\":\"aGVsbG8=\\n\"}"}, {0, "{\"b\":\"aGk=\"}"}, {0, "{\"b\":\"aGl=\"}"}, {0, "{\"b\":\"aQ==\"}"}, {0, "{\"b\":\"aR==\"}"}, {0, "{\"b\":\"+/+/\"}"}, {0, "{\"b\":\"-_-_\"}"},
	{4, "{\"b\":\"\\/w==\"}"}, {4, "{\"b\":\"not base64 \\u00e9\"}"},
	// structure
	{0, "{}"}, {0, " { } trailing"}, {0, "{\"i\":1}{\"i\":2}"}, {0, "{\"i\":1},"}, {0, "{\"i\":1,}"}, {0, "{,\"i\":1}"}, {0, "{\"i\" 1}"}, {0, "{\"i\":}"}, {0, "{\"i\"}"}, {0, "{i:1}"}, {0, "{'i':1}"}, {0, "{\"i\":1"}, {0, "{\"i\":1]"},
	{0, "{\"l\":[1,2,]}"}, {0, "{\"l\":[,1]}"}, {0, "{\"l\":[1 2]}"}, {0, "{\"l\":[1,2}"}, {0, "{\"l\":[null]}"}, {0, "{\"l\":[null,null]}"}, {0, "{\"l\":[1,null,2]}"}, {0, "{\"l\":[]}"}, {0, "{\"l\":[ ]}"}, {0, "{\"l\":null}"},
	{0, "{\"f\":{\"f\":{\"f\":null}}}"}, {0, "{\"f\":{\"f\":{\"i\":null}},\"i\":null}"}, {0, "{\"f\":null,\"f\":{}}"}, {0, "{\"i\":1,\"i\":2,\"i\":null}"}, {0, "{\"ms\":{\"a\":1,\"a\":2,\"a\":null}}"}, {0, "{\"ms\":{\"\":1}}"},
	{0, "{\"t\":tru}"}, {0, "{\"t\":truex}"}, {0, "{\"t\":TRUE}"}, {0, "{\"t\":falsy}"}, {0, "{\"t\":nulL}"}, {0, "{\"t\":n}"},
	// unknown members: values of every kind, malformed inside the skipped value
	{0, "{\"zz\":{\"a\":[1,2,{\"b\":null}]},\"i\":1}"}, {0, "{\"zz\":[1,\"x\",{}],\"i\":1}"}, {0, "{\"zz\":tru,\"i\":1}"}, {0, "{\"zz\":[1,},\"i\":1}"}, {0, "{\"zz\":{\"a\" 1},\"i\":1}"}, {0, "{\"zz\":01,\"i\":1}"}, {0, "{\"zz\":1.5e3,\"i\":1}"},
	// paths peculiar to the portable converter's walk (check 211): a string for a descriptor that takes none falls out of the switch,
	// literals cut off by the end of the text, strconv number syntax, unquoteBytes, base64 with CR / LF
	{0, "{\"t\":\"x\"}"}, {0, "{\"t\":\"x\" true}"}, {0, "{\"i\":\"x\" 5}"}, {0, "{\"l\":\"x\"[1]}"}, {0, "{\"f\":\"x\"{}}"}, {0, "{\"i\":\"a\" \"b\" 7,\"t\":true}"},
	{0, "{\"s\":\"abc"}, {0, "{\"s\":\"ab\\"}, {0, "{\"s\":\"ab\\\""}, {0, "{\"s\":\""}, {0, "{\"s"}, {0, "{\"s\":\"a\\u00"},
	{0, "{\"i\":007}"}, {0, "{\"i\":-007}"}, {0, "{\"d\":-.5}"}, {0, "{\"d\":1.}"}, {0, "{\"d\":1.e3}"}, {0, "{\"d\":00.5}"}, {0, "{\"d\":1e+}"}, {0, "{\"d\":1+2}"}, {0, "{\"d\":1e5e5}"}, {0, "{\"d\":1..2}"}, {0, "{\"i\":1-2}"}, {0, "{\"i\":12345678901234567890}"}, {0, "{\"y\":99999999999999999999999}"},
	{0, "{\"s\":\"\\'\"}"}, {0, "{\"s\":\"\\ud83d\\u0041\"}"}, {0, "{\"s\":\"a\\n\xff\xfe\"}"}, {0, "{\"s\":\"\xff\xfe\"}"}, {0, "{\"s\":\"\\n\xed\xa0\x80\xf4\x90\x80\x80\xc0\xaf\"}"}, {0, "{\"s\":\"\\t\xe2\x82\xac\xf0\x9f\x98\x80\xc3\xa9\"}"}, {0, "{\"ms\":{\"\\ud83d\":1,\"\\'\":2}}"},
	{0, "{\"b\":\"aGVs\\nbG8=\"}"}, {0, "{\"b\":\"aGVs\\r\\nbG8=\\n\"}"}, {0, "{\"b\":\"aGVsbG8\\n=\"}"}, {0, "{\"b\":\"aGVsbA=\\n=\"}"}, {0, "{\"b\":\"aGVsbA==\\nx\"}"},
	{2, "{\"i\":\"+5\"}"}, {2, "{\"i\":\"007\"}"}, {2, "{\"i\":\"-\"}"}, {2, "{\"i\":\"9223372036854775808\"}"}, {2, "{\"i\":\"1_0\"}"}, {2, "{\"d\":\"+.5e1\"}"}, {2, "{\"d\":\"inf\"}"}, {2, "{\"d\":\"NaN\"}"}, {2, "{\"d\":\"0x1p3\"}"}, {2, "{\"d\":\"1_0\"}"}, {2, "{\"d\":\"1e999\"}"}, {2, "{\"d\":\"abc!\"}"}, {2, "{\"d\":\"\"}"}, {2, "{\"y\":\"300\"}"},
	{0, "{\"md\":{\"inf\":true}}"}, {0, "{\"md\":{\"1e999\":true}}"}, {0, "{\"md\":{\"+1.5\":true,\".5\":false}}"}, {0, "{\"mi\":{\"+1\":\"a\",\"007\":\"b\"}}"},
	{0, "{\"mi\":{\"1\" \"a\"}}"}, {0, "{\"mi\":{1:\"a\"}}"}, {0, "{\"mi\":{\"1\":\"a\",}}"}, {0, "{\"l\":[1,2"}, {0, "{\"l\":[1,2]"}, {0, "{\"zz\":{\"a\":\"}\"},\"i\":1}"}, {0, "{\"zz\":[\"]\\\"]\",[2]],\"i\":1}"}, {0, "{\"zz\":{]},\"i\":1}"}, {0, "{\"zz\":1.2.3,\"i\":1}"}, {0, "{\"zz\":1e,\"i\":1}"},
	// EnableValueMapping + api.js_conv
	{8, "{\"vl\":\"7\"}"}, {8, "{\"vl\":7}"}, {8, "{\"vl\":\"\"}"}, {8, "{\"vl\":\"x\"}"}, {8, "{\"vl\":\"1x\"}"}, {8, "{\"vl\":true}"}, {8, "{\"vl\":null}"}, {8, "{\"vl\":null,\"i\":1}"}, {8, "{\"vl\":[1]}"}, {8, "{\"vl\":\"9223372036854775807\"}"}, {8, "{\"vl\":\"9223372036854775808\"}"}, {8, "{\"vl\":\" 1\"}"}, {8, "{\"vl\":\"1 \"}"}, {8, "{\"vl\":\"\\u0031\"}"}, {8, "{\"vl\":1.0}"}, {8, "{\"vl\":\"1e2\"}"},
	{8, "{\"vh\":5}"}, {8, "{\"vh\":\"5\"}"}, {8, "{\"vh\":\"\"}"}, {8, "{\"vh\":-2,\"i\":1}"}, {8, "{\"vh\":32768}"},
	{8, "{\"vs\":12}"}, {8, "{\"vs\":\"x\"}"}, {8, "{\"vs\":-1.50e3}"}, {8, "{\"vs\":\"\"}"}, {8, "{\"vs\":\"a\\nb\"}"}, {8, "{\"vs\":true}"}, {8, "{\"vs\":01}"},
	{8, "{\"vd\":\"1.5\"}"}, {8, "{\"vd\":1.5}"}, {8, "{\"vd\":\"\"}"}, {8, "{\"vd\":\"1e400\"}"}, {8, "{\"vt\":true}"}, {8, "{\"vt\":\"1\"}"}, {8, "{\"vt\":1}"}, {8, "{\"vy\":\"127\"}"}, {8, "{\"vy\":\"128\"}"}, {8, "{\"vi\":\"-2147483648\"}"},
	{0, "{\"vl\":\"7\"}"}, {0, "{\"vl\":7,\"vh\":5,\"vs\":\"x\"}"}, {10, "{\"vl\":\"7\",\"i\":\"7\"}"},
	{1, "{\"zz\":1}"}, {1, "{\"i\":1,\"zz\":null}"}, {1, "{\"f\":{\"zz\":1}}"}, {1, "{\"i\":1}"}, {1, "{\"I\":1}"}, {1, "{\"\":1}"},
}
