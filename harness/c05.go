//go:build verif

package main

import (
	"fmt"

	"github.com/cloudwego/dynamicgo/internal/caching"
	"github.com/cloudwego/dynamicgo/thrift"
	"github.com/cloudwego/dynamicgo/thrift/generic"
)

// C05 — Thrift DOM (generic.PathNode): Load (recursive / lazy) under every storage option, Marshal, tree edits and
// lookups, with the SAME PathNode reused across loads of different sizes and across pool round trips.
// One case (check 501) = options + the runtime string hashes of every string key involved + a history of operations,
// each followed by what the implementation produced.  See coq/model/Check05.v for the format.

func init() { generators["C05"] = genC05 }

var c5sizes = []int{0, 1, 16, 17, 33, 200}
var c5ids = []int16{1, 2, 3, 4, 5, 255, 256, 257, 1000}

type c5gen struct {
	r  *rng
	tg *tgen
}

func c5ty(k thrift.Type) *Ty { return &Ty{K: k} }

// element types used for container payloads
func (g *c5gen) elemTy(depth int) *Ty {
	r := g.r
	switch x := r.intn(10); {
	case x == 9 && depth <= 1 && r.chance(40):
		return g.tinyContainerTy()
	case x < 4 || depth >= 2:
		return c5ty([]thrift.Type{thrift.I32, thrift.STRING, thrift.I64, thrift.BOOL, thrift.I08, thrift.DOUBLE, thrift.I16}[r.intn(7)])
	case x < 6:
		return &Ty{K: thrift.LIST, Elem: g.elemTy(depth + 1)}
	case x < 7:
		return &Ty{K: thrift.SET, Elem: c5ty(thrift.I32)}
	case x < 9:
		kt := []thrift.Type{thrift.STRING, thrift.I32, thrift.I64, thrift.I16}[r.intn(4)]
		return &Ty{K: thrift.MAP, Key: c5ty(kt), Elem: g.elemTy(depth + 1)}
	default:
		return g.structTy(depth + 1)
	}
}

func (g *c5gen) structTy(depth int) *Ty {
	r := g.r
	t := &Ty{K: thrift.STRUCT, Name: "S"}
	used := map[int16]bool{}
	n := 1 + r.intn(6)
	if depth == 0 && r.chance(30) {
		n = len(c5ids)
	}
	for i := 0; i < n; i++ {
		id := c5ids[r.intn(len(c5ids))]
		if r.chance(30) {
			id = int16(1 + r.intn(300)) // the whole id-indexed range and a little beyond the threshold
		}
		if r.chance(3) {
			id = int16(-1 - r.intn(5)) // negative ids are FieldID >= 32768
		}
		if used[id] {
			continue
		}
		used[id] = true
		t.Fields = append(t.Fields, &Fld{ID: id, T: g.elemTy(depth + 1)})
	}
	return t
}

func (g *c5gen) size() int {
	r := g.r
	switch x := r.intn(10); {
	case x < 7:
		return c5sizes[r.intn(len(c5sizes))]
	case x < 9:
		return r.intn(45)
	default:
		return 34 + r.intn(120)
	}
}

// small random payload of type t
func (g *c5gen) payload(t *Ty) *Val {
	if t.K == thrift.STRUCT && t.Name == "Tiny" {
		v := &Val{T: t}
		if g.r.chance(25) {
			v.FIDs = []int16{1}
			v.Fields = []*Val{{T: t.Fields[0].T, I: int64(g.r.intn(100))}}
		}
		return v
	}
	return g.tg.genValue(t, 3)
}

// distinct keys for a map of n entries; style: 0 sequential, 1 random, 2 adversarial (collide modulo 2n, cluster at the end)
func (g *c5gen) mapKeys(kt *Ty, n int, pfx string) []*Val {
	r := g.r
	keys := make([]*Val, 0, n)
	seen := map[string]bool{}
	add := func(v *Val) {
		s := string(v.encode(nil))
		if !seen[s] {
			seen[s] = true
			keys = append(keys, v)
		}
	}
	style := r.intn(3)
	N := int64(2 * n)
	for i := 0; len(keys) < n && i < 20*n+50; i++ {
		switch kt.K {
		case thrift.STRING:
			switch style {
			case 0:
				add(&Val{T: kt, S: []byte(fmt.Sprintf("%s%d", pfx, i))})
			default:
				if r.chance(20) {
					add(&Val{T: kt, S: r.bytes(r.intn(9))})
				} else {
					add(&Val{T: kt, S: []byte(fmt.Sprintf("%s%c%d", pfx, 'a'+rune(r.intn(26)), r.intn(100000)))})
				}
			}
		case thrift.I08:
			add(&Val{T: kt, I: int64(int8(r.intn(256)))})
		default:
			var k int64
			switch style {
			case 0:
				k = int64(i)
			case 1:
				k = g.tg.genInt(kt.K)
				if r.chance(50) {
					k = int64(r.intn(4*n + 10))
				}
			default:
				// clusters around the end of the table and multiples of N
				if N == 0 {
					k = int64(i)
				} else {
					k = N*int64(r.intn(4)) + (N - 1 - int64(r.intn(3)))
					if r.chance(35) {
						k = N*int64(r.intn(3)) + int64(r.intn(3))
					}
					if r.chance(10) {
						k = -k
					}
				}
			}
			switch kt.K {
			case thrift.I16:
				k = int64(int16(k))
			case thrift.I32:
				k = int64(int32(k))
			}
			add(&Val{T: kt, I: k})
		}
	}
	return keys
}

func (g *c5gen) mapVal(t *Ty, n int, pfx string) *Val {
	if t.Key.K == thrift.I08 && n > 120 {
		n = 120
	}
	if ek := t.Elem.K; n > 40 && (ek == thrift.STRUCT || ek == thrift.MAP || ek == thrift.LIST || ek == thrift.SET) {
		n = 40 // the largest maps carry scalar payloads (model run time)
	}
	v := &Val{T: t}
	v.Keys = g.mapKeys(t.Key, n, pfx)
	for range v.Keys {
		v.Elems = append(v.Elems, g.payload(t.Elem))
	}
	return v
}

func (g *c5gen) listVal(t *Ty, n int) *Val {
	v := &Val{T: t}
	for i := 0; i < n; i++ {
		v.Elems = append(v.Elems, g.payload(t.Elem))
	}
	return v
}

func (g *c5gen) structVal(t *Ty, all bool) *Val {
	v := &Val{T: t}
	perm := make([]int, len(t.Fields))
	for i := range perm {
		perm[i] = i
	}
	for i := len(perm) - 1; i > 0; i-- {
		j := g.r.intn(i + 1)
		perm[i], perm[j] = perm[j], perm[i]
	}
	for _, i := range perm {
		f := t.Fields[i]
		if !all && g.r.chance(30) {
			continue
		}
		v.FIDs = append(v.FIDs, f.ID)
		var fv *Val
		switch {
		case f.T.K == thrift.MAP && g.r.chance(50):
			fv = g.mapVal(f.T, g.size(), "n")
		case (f.T.K == thrift.LIST || f.T.K == thrift.SET) && g.r.chance(40):
			fv = g.listVal(f.T, g.size())
		default:
			fv = g.payload(f.T)
		}
		v.Fields = append(v.Fields, fv)
	}
	return v
}

// a root value of the given shape with the given size class
func (g *c5gen) rootVal(t *Ty, n int, pfx string) *Val {
	switch t.K {
	case thrift.STRUCT:
		return g.structVal(t, g.r.chance(40))
	case thrift.MAP:
		return g.mapVal(t, n, pfx)
	default:
		return g.listVal(t, n)
	}
}

// a struct that is usually EMPTY on the wire (one byte): containers of such elements are shorter than any bound that
// assumes a minimal element size, in particular at the tail of the value
func c5tinyTy() *Ty {
	return &Ty{K: thrift.STRUCT, Name: "Tiny", Fields: []*Fld{{ID: 1, T: c5ty(thrift.I08), Req: 2}}}
}

func (g *c5gen) tinyContainerTy() *Ty {
	r := g.r
	switch r.intn(4) {
	case 0:
		return &Ty{K: thrift.LIST, Elem: c5tinyTy()}
	case 1:
		return &Ty{K: thrift.SET, Elem: c5tinyTy()}
	case 2:
		return &Ty{K: thrift.MAP, Key: c5ty(thrift.STRING), Elem: c5tinyTy()}
	default:
		return &Ty{K: thrift.MAP, Key: c5ty([]thrift.Type{thrift.I08, thrift.I16, thrift.I32, thrift.I64}[r.intn(4)]), Elem: c5tinyTy()}
	}
}

func (g *c5gen) rootTy() *Ty {
	r := g.r
	if r.chance(10) {
		return g.tinyContainerTy()
	}
	switch x := r.intn(10); {
	case x < 3:
		return g.structTy(0)
	case x < 6:
		return &Ty{K: thrift.MAP, Key: c5ty(thrift.STRING), Elem: g.elemTy(1)}
	case x < 9:
		kt := []thrift.Type{thrift.I32, thrift.I64, thrift.I16, thrift.I08, thrift.I32}[r.intn(5)]
		return &Ty{K: thrift.MAP, Key: c5ty(kt), Elem: g.elemTy(1)}
	default:
		k := thrift.LIST
		if r.bool() {
			k = thrift.SET
		}
		return &Ty{K: k, Elem: g.elemTy(1)}
	}
}

// ---- bookkeeping of what the harness believes is stored at a target (only used to pick interesting operations) ----

type c5target struct {
	path    []Step
	val     *Val            // the container value loaded there
	extra   []Step          // keys appended by Set
	leafKid bool            // children are leaves (lazy load): replacing a container child is inside the API contract
	touched map[string]bool // keys set or cleared since the load
}

func c5keyStep(k *Val) Step {
	switch k.T.K {
	case thrift.STRING:
		return Step{Kind: 3, B: k.S}
	case thrift.I08:
		return Step{Kind: 4, N: k.I & 0xff}
	default:
		return Step{Kind: 4, N: k.I}
	}
}

func stepStr(s Step) string { return fmt.Sprintf("%d/%d/%x", s.Kind, s.N, s.B) }

// all key steps of the children the container value holds, with the child values
func c5children(v *Val) ([]Step, []*Val) {
	var ks []Step
	var cs []*Val
	switch v.T.K {
	case thrift.STRUCT:
		for i, id := range v.FIDs {
			ks = append(ks, Step{Kind: 1, N: int64(uint16(id))})
			cs = append(cs, v.Fields[i])
		}
	case thrift.LIST, thrift.SET:
		for i, e := range v.Elems {
			ks = append(ks, Step{Kind: 2, N: int64(i)})
			cs = append(cs, e)
		}
	case thrift.MAP:
		for i, e := range v.Elems {
			ks = append(ks, c5keyStep(v.Keys[i]))
			cs = append(cs, e)
		}
	}
	return ks, cs
}

// ---- running operations on the real PathNode ----

type c5run struct {
	g      *c5gen
	opts   *generic.Options
	pn     *generic.PathNode
	ops    []string
	nops   int
	hashes map[string]uint64
	hkeys  []string
	stale  []Step // keys of earlier loads (looked up again after a reload)
	kept   []c5kept // the last Marshal results, held as the very slices returned
}

type c5kept struct{ live, copy []byte }

// a result handed to the caller is the caller's: remember the slice itself and a private copy
func (c *c5run) keep(out []byte) {
	if len(out) == 0 {
		return
	}
	c.kept = append(c.kept, c5kept{live: out, copy: append([]byte(nil), out...)})
	if len(c.kept) > 4 {
		c.kept = c.kept[len(c.kept)-4:]
	}
}

var c5scratchBytes = []byte{0x0a, 0x00, 0x01, 0x11, 0x22, 0x33, 0x44, 0x55, 0x66, 0x77, 0x88, 0x0b, 0x00, 0x02, 0x00, 0x00, 0x00, 0x03, 'x', 'y', 'z', 0x00}

// marshal ANOTHER tree (twice, plus once into a caller buffer), then re-compare the kept results (check op 11)
func (c *c5run) opRetain() {
	other := &generic.PathNode{Node: generic.NewNode(thrift.STRUCT, c5scratchBytes)}
	noPanic(func() {
		if other.Load(true, c.opts) == nil {
			other.Marshal(c.opts)
			other.Marshal(c.opts)
			buf := make([]byte, 0, 8)
			other.MarshalIntoBuffer(&buf, c.opts)
		}
	})
	changed := 0
	for _, k := range c.kept {
		if string(k.live) != string(k.copy) {
			changed++
		}
	}
	c.add("n11", fi(len(c.kept)), fi(changed))
	c.nops++
}

// MarshalIntoBuffer into a caller buffer: capacity class 0 none, 1 small, 2 exact, 3 one short, 4 large (check op 10)
func (c *c5run) opMarshalInto(p []Step, class int) {
	t, st := c.nav(p)
	if st != 0 {
		c.opMarshal(p)
		return
	}
	need := 0
	if ms, ref := c.marshalOf(t); ms == 0 {
		need = len(ref)
	}
	capn := []int{0, 16, need, need - 1, need*2 + 4096}[class%5]
	if capn < 0 {
		capn = 0
	}
	buf := make([]byte, 0, capn)
	var err error
	ok, _ := noPanic(func() { err = t.MarshalIntoBuffer(&buf, c.opts) })
	c.add("n10")
	c.add(pathFields(p)...)
	c.add(fi(capn))
	switch {
	case !ok:
		c.add("n3", fx(nil))
	case err != nil:
		c.add("n2", fx(nil))
	default:
		c.add("n0", fx(buf))
		c.keep(buf)
	}
	c.nops++
}


func (c *c5run) noteStr(b []byte) {
	s := string(b)
	if _, ok := c.hashes[s]; !ok {
		c.hashes[s] = caching.StrHash(s)
		c.hkeys = append(c.hkeys, s)
	}
}

func (c *c5run) noteVal(v *Val) {
	switch v.T.K {
	case thrift.STRUCT:
		for _, f := range v.Fields {
			c.noteVal(f)
		}
	case thrift.LIST, thrift.SET:
		for _, e := range v.Elems {
			c.noteVal(e)
		}
	case thrift.MAP:
		for i, e := range v.Elems {
			if v.T.Key.K == thrift.STRING {
				c.noteStr(v.Keys[i].S)
			}
			c.noteVal(e)
		}
	}
}

// one API lookup; status 0 found, 1 nil, 2 error node, 3 panic
func (c *c5run) lookup(t *generic.PathNode, k Step) (res *generic.PathNode, st int) {
	ok, _ := noPanic(func() {
		switch k.Kind {
		case 1:
			res = t.Field(thrift.FieldID(k.N), c.opts)
		case 2:
			if k.N >= 0 && int(k.N) < len(t.Next) {
				res = &t.Next[k.N]
			}
		case 3:
			c.noteStr(k.B)
			res = t.GetByStr(string(k.B), c.opts)
		case 4:
			res = t.GetByInt(int(k.N), c.opts)
		}
	})
	if !ok {
		return nil, 3
	}
	if res == nil {
		return nil, 1
	}
	if res.Node.IsError() {
		return nil, 2
	}
	return res, 0
}

func (c *c5run) nav(p []Step) (*generic.PathNode, int) {
	cur := c.pn
	for _, s := range p {
		n, st := c.lookup(cur, s)
		if st == 3 {
			return nil, 3
		}
		if st != 0 {
			return nil, 4
		}
		cur = n
	}
	return cur, 0
}

func (c *c5run) marshalOf(t *generic.PathNode) (int, []byte) {
	var out []byte
	var err error
	ok, _ := noPanic(func() { out, err = t.Marshal(c.opts) })
	if !ok {
		return 3, nil
	}
	if err != nil {
		return 2, nil
	}
	c.keep(out)
	return 0, out
}

func (c *c5run) add(f ...string) { c.ops = append(c.ops, f...) }

func (c *c5run) opLoad(rec bool, v *Val) {
	buf := v.encode(nil)
	c.noteVal(v)
	st := 0
	ok, _ := noPanic(func() {
		c.pn.Node = generic.NewNode(v.T.K, buf)
		if err := c.pn.Load(rec, c.opts); err != nil {
			st = 2
		}
	})
	if !ok {
		st = 3
	}
	c.add("n1", fb(rec), fi(int(v.T.K)), fx(buf), fi(st))
	c.nops++
}

func (c *c5run) opMarshal(p []Step) {
	c.add("n2")
	c.add(pathFields(p)...)
	t, st := c.nav(p)
	if st != 0 {
		c.add(fi(st), fx(nil))
	} else {
		ms, out := c.marshalOf(t)
		c.add(fi(ms), fx(out))
	}
	c.nops++
}

// NewTypedNode(t, et, kt, children...) of the target's own children: the bytes must be the marshalled target
// (check op 8, judged exactly like Marshal)
func (c *c5run) opTyped(p []Step) {
	t, st := c.nav(p)
	if st != 0 || len(t.Next) == 0 {
		c.opMarshal(p)
		return
	}
	switch t.Node.Type() {
	case thrift.STRUCT, thrift.LIST, thrift.SET, thrift.MAP:
	default:
		c.opMarshal(p)
		return
	}
	c.add("n8")
	c.add(pathFields(p)...)
	var out []byte
	ok, _ := noPanic(func() {
		n := generic.NewTypedNode(t.Node.Type(), t.Node.ElemType(), t.Node.KeyType(), t.Next...)
		out = n.Raw()
	})
	if !ok {
		// NewTypedNode has no error result: it panics when marshalling the children fails. That IS its failure report,
		// so it is recorded as the error status of Marshal (2), not as a crash.
		c.add("n2", fx(nil))
	} else {
		c.add("n0", fx(out))
	}
	c.nops++
}

func (c *c5run) opGet(p []Step, k Step) {
	c.add("n3")
	c.add(pathFields(p)...)
	c.add(k.fields()...)
	t, st := c.nav(p)
	if st != 0 {
		c.add(fi(st), "n0", fx(nil), "n0", fx(nil))
	} else {
		ch, ls := c.lookup(t, k)
		if ls != 0 {
			c.add(fi(ls), "n0", fx(nil), "n0", fx(nil))
		} else {
			ms, out := c.marshalOf(ch)
			c.add("n0", fi(int(ch.Node.Type())), fx(ch.Node.Raw()), fi(ms), fx(out))
		}
	}
	c.nops++
}

func (c *c5run) opSet(p []Step, k Step, x *Val) {
	vb := x.encode(nil)
	c.noteVal(x)
	c.add("n4")
	c.add(pathFields(p)...)
	c.add(k.fields()...)
	c.add(fi(int(x.T.K)), fx(vb))
	t, st := c.nav(p)
	if st != 0 {
		c.add(fi(st), "n0", "n0")
		c.nops++
		return
	}
	node := generic.NewNode(x.T.K, vb)
	exist := false
	var err error
	ok, _ := noPanic(func() {
		switch k.Kind {
		case 1:
			exist, err = t.SetField(thrift.FieldID(k.N), node, c.opts)
		case 2:
			if k.N >= 0 && int(k.N) < len(t.Next) {
				t.Next[k.N].Node = node
				exist = true
			} else {
				err = fmt.Errorf("index out of range")
			}
		case 3:
			c.noteStr(k.B)
			exist, err = t.SetByStr(string(k.B), node, c.opts)
		case 4:
			exist, err = t.SetByInt(int(k.N), node, c.opts)
		}
	})
	switch {
	case !ok:
		c.add("n3", "n0", fi(cap(t.Next)))
	case err != nil:
		c.add("n2", "n0", fi(cap(t.Next)))
	default:
		c.add("n0", fb(exist), fi(cap(t.Next)))
	}
	c.nops++
}

// the ERROR node a failed lookup returns: kind 0 = not found (Field() of an absent id), 1 = another error code
// (Field() on a value that is not a struct)
func c5errNode(kind int) generic.Node {
	if kind == 0 {
		return generic.NewNode(thrift.STRUCT, []byte{0}).Field(99)
	}
	return generic.NewNode(thrift.I32, []byte{0, 0, 0, 1}).Field(1)
}

// store the result of a FAILED lookup, unchecked, as a child (check op 9)
func (c *c5run) opSetErr(p []Step, k Step, kind int) {
	node := c5errNode(kind)
	if !node.IsError() {
		die("c5errNode(%d) is not an error node", kind)
	}
	c.add("n9")
	c.add(pathFields(p)...)
	c.add(k.fields()...)
	c.add(fi(int(node.ErrCode().Behavior())))
	t, st := c.nav(p)
	if st != 0 {
		c.add(fi(st), "n0", "n0")
		c.nops++
		return
	}
	exist := false
	var err error
	ok, _ := noPanic(func() {
		switch k.Kind {
		case 1:
			exist, err = t.SetField(thrift.FieldID(k.N), node, c.opts)
		case 2:
			if k.N >= 0 && int(k.N) < len(t.Next) {
				t.Next[k.N].Node = node
				exist = true
			} else {
				err = fmt.Errorf("index out of range")
			}
		case 3:
			c.noteStr(k.B)
			exist, err = t.SetByStr(string(k.B), node, c.opts)
		case 4:
			exist, err = t.SetByInt(int(k.N), node, c.opts)
		}
	})
	switch {
	case !ok:
		c.add("n3", "n0", fi(cap(t.Next)))
	case err != nil:
		c.add("n2", "n0", fi(cap(t.Next)))
	default:
		c.add("n0", fb(exist), fi(cap(t.Next)))
	}
	c.nops++
}

func (c *c5run) opClear(p []Step, k Step) {
	c.add("n5")
	c.add(pathFields(p)...)
	c.add(k.fields()...)
	t, st := c.nav(p)
	if st != 0 {
		c.add(fi(st))
	} else {
		ch, ls := c.lookup(t, k)
		if ls == 0 {
			ch.Node = generic.Node{}
		}
		c.add(fi(ls))
	}
	c.nops++
}

func (c *c5run) opPool() {
	old := c.pn
	generic.FreePathNode(old)
	n := generic.NewPathNode()
	same := n == old
	if !same {
		*n = generic.PathNode{} // whatever the pool handed out: start from a zero node
	}
	c.pn = n
	c.add("n6", fb(same))
	c.nops++
}

func (c *c5run) opLoadAt(p []Step, rec bool) {
	c.add("n7")
	c.add(pathFields(p)...)
	c.add(fb(rec))
	t, st := c.nav(p)
	if st == 0 {
		ok, _ := noPanic(func() {
			if err := t.Load(rec, c.opts); err != nil {
				st = 2
			}
		})
		if !ok {
			st = 3
		}
	}
	c.add(fi(st))
	c.nops++
}

// ---- history generation ----

func (c *c5run) absentKey(tg *c5target) (Step, bool) {
	r := c.g.r
	present := map[string]bool{}
	ks, _ := c5children(tg.val)
	for _, k := range ks {
		present[stepStr(k)] = true
	}
	for _, k := range tg.extra {
		present[stepStr(k)] = true
	}
	for try := 0; try < 8; try++ {
		var s Step
		switch tg.val.T.K {
		case thrift.STRUCT:
			ids := []int64{0, 1, 2, 3, 4, 5, 6, 7, 100, 254, 255, 256, 257, 258, 300, 1000, 1001, 32767, 40000, 65535}
			s = Step{Kind: 1, N: ids[r.intn(len(ids))]}
			if len(c.stale) > 0 && r.chance(50) { // a field id an EARLIER load of this node had
				if x := c.stale[r.intn(len(c.stale))]; x.Kind == 1 {
					s = x
				}
			}
		case thrift.MAP:
			if len(c.stale) > 0 && r.chance(50) {
				s = c.stale[r.intn(len(c.stale))]
				// only keys of the map's own kind (an index step of an earlier LIST load is not a map key)
				if (tg.val.T.Key.K == thrift.STRING && s.Kind != 3) || (tg.val.T.Key.K != thrift.STRING && s.Kind != 4) {
					continue
				}
			} else if tg.val.T.Key.K == thrift.STRING {
				s = Step{Kind: 3, B: []byte(fmt.Sprintf("abs%d", r.intn(1000)))}
			} else {
				n := int64(r.intn(1000)) - 100
				switch tg.val.T.Key.K {
				case thrift.I08:
					n = int64(r.intn(256))
				case thrift.I16:
					n = int64(int16(n * 7))
				}
				s = Step{Kind: 4, N: n}
			}
		default:
			return Step{}, false
		}
		if !present[stepStr(s)] {
			return s, true
		}
	}
	return Step{}, false
}

func (c *c5run) editsOn(tg *c5target, n int) {
	r := c.g.r
	g := c.g
	for i := 0; i < n; i++ {
		ks, cs := c5children(tg.val)
		cls := r.intn(100)
		switch {
		case cls < 30 && len(ks) > 0: // lookup of a present key
			c.opGet(tg.path, ks[r.intn(len(ks))])
		case cls < 42: // lookup of an absent key / a key of an earlier load / an appended key
			if len(tg.extra) > 0 && r.chance(40) {
				c.opGet(tg.path, tg.extra[r.intn(len(tg.extra))])
			} else if k, ok := c.absentKey(tg); ok {
				c.opGet(tg.path, k)
			}
		case cls < 62 && len(ks) > 0: // replace the node of an existing child
			j := r.intn(len(ks))
			ct := cs[j].T
			if ct.K == thrift.STRUCT || ct.K == thrift.MAP || ct.K == thrift.LIST || ct.K == thrift.SET {
				if !tg.leafKid {
					if tg.val.T.K != thrift.STRUCT {
						continue
					}
					ct = c5ty(thrift.I32) // a struct field may change its type; a loaded container child is only replaced by a scalar
				}
			}
			c.opSet(tg.path, ks[j], g.payload(ct))
			tg.touched[stepStr(ks[j])] = true
		case cls < 78: // store under an absent key (append)
			if tg.val.T.K == thrift.LIST || tg.val.T.K == thrift.SET {
				continue
			}
			k, ok := c.absentKey(tg)
			if !ok {
				continue
			}
			var et *Ty
			if tg.val.T.K == thrift.MAP {
				et = tg.val.T.Elem
			} else {
				et = g.elemTy(1)
			}
			c.opSet(tg.path, k, g.payload(et))
			tg.extra = append(tg.extra, k)
			tg.touched[stepStr(k)] = true
		case cls < 88 && len(ks) > 0: // clear a child
			j := r.intn(len(ks))
			c.opClear(tg.path, ks[j])
			tg.touched[stepStr(ks[j])] = true
		case cls < 90: // clear / get something absent
			if k, ok := c.absentKey(tg); ok {
				c.opClear(tg.path, k)
			}
		case cls < 92: // clear / get something absent (second half of the class above)
			if k, ok := c.absentKey(tg); ok {
				c.opGet(tg.path, k)
			}
		case cls < 97: // the result of a FAILED lookup is stored as a child: Marshal must fail until it is replaced
			var k Step
			var repair *Ty
			if len(ks) > 0 && (r.chance(60) || tg.val.T.K == thrift.LIST || tg.val.T.K == thrift.SET) {
				j := r.intn(len(ks))
				ct := cs[j].T
				isC := ct.K == thrift.STRUCT || ct.K == thrift.MAP || ct.K == thrift.LIST || ct.K == thrift.SET
				if isC && !tg.leafKid {
					if tg.val.T.K != thrift.STRUCT {
						continue
					}
					ct = c5ty(thrift.I32)
				}
				k, repair = ks[j], ct
			} else {
				if tg.val.T.K == thrift.LIST || tg.val.T.K == thrift.SET {
					continue
				}
				ak, ok := c.absentKey(tg)
				if !ok {
					continue
				}
				k = ak
				if tg.val.T.K == thrift.MAP {
					repair = tg.val.T.Elem
				} else {
					repair = g.elemTy(1)
				}
				tg.extra = append(tg.extra, k)
			}
			c.opSetErr(tg.path, k, r.intn(3)/2) // mostly not-found, sometimes another error code
			tg.touched[stepStr(k)] = true
			if r.chance(50) {
				c.opMarshal(tg.path)
			} else {
				c.opTyped(tg.path)
			}
			if len(tg.path) > 0 && r.chance(50) {
				c.opMarshal(nil)
			}
			if r.chance(30) {
				c.opGet(tg.path, k)
			}
			if r.chance(75) {
				c.opSet(tg.path, k, g.payload(repair))
			} else {
				return // the tree stays unmarshallable: later marshals of this target must keep failing
			}
		case cls < 98: // wrong kind of access
			switch r.intn(3) {
			case 0:
				c.opGet(tg.path, Step{Kind: 1, N: 1})
			case 1:
				c.opGet(tg.path, Step{Kind: 3, B: []byte("k")})
			default:
				c.opGet(tg.path, Step{Kind: 4, N: 1})
			}
		default:
			if r.chance(40) {
				c.opTyped(tg.path)
			} else {
				c.opMarshal(tg.path)
			}
		}
	}
}

// ---- dense sweeps over field ids under StoreChildrenById ----
// The slot index of the id-indexed storage JUMPS (l = id), so the growth of the children slice depends on the exact ids
// and on their order. A sweep case loads a LIST of small structs: every element struct has its own children slice, so
// one case tries a whole range of id sequences (first wire field k for all k; pairs a < 16 <= b; triples; random),
// on fresh slices (first load), on reused ones (second load with other sequences) and on lazily loaded children.

func c5idStruct(ids []int) *Val {
	t := &Ty{K: thrift.STRUCT, Name: "S"}
	v := &Val{T: t}
	for i, id := range ids {
		ft := c5ty(thrift.I08)
		t.Fields = append(t.Fields, &Fld{ID: int16(id), T: ft})
		v.FIDs = append(v.FIDs, int16(id))
		v.Fields = append(v.Fields, &Val{T: ft, I: int64((id + i) & 0x7f)})
	}
	return v
}

// the id sequences of sweep number k (the schedule is fixed, so one quick run covers all of it)
func c5sweepSeqs(r *rng, k int) [][]int {
	var seqs [][]int
	k = k % 60
	switch {
	case k < 2: // first wire field = every id 1..300
		for id := 1 + 150*k; id <= 150*(k+1); id++ {
			seqs = append(seqs, []int{id})
		}
	case k < 6: // pairs a < 16 <= b, all b
		a := []int{1, 15}[(k-2)/2]
		lo := 16 + 143*((k-2)%2)
		for b := lo; b < lo+143 && b <= 300; b++ {
			seqs = append(seqs, []int{a, b})
		}
	case k < 18: // triples a < 16 <= b < c, all c for a few b
		bs := []int{16, 31, 32, 47, 48, 64, 100, 104, 111, 112, 120, 200}
		b := bs[k-6]
		for c := b + 1; c <= 300; c += 1 + (300-b)/150 {
			seqs = append(seqs, []int{1 + r.intn(15), b, c})
		}
	default: // random sequences (any order, 1..6 ids out of 1..300)
		for i := 0; i < 100; i++ {
			n := 1 + r.intn(6)
			used := map[int]bool{}
			var q []int
			for len(q) < n {
				id := 1 + r.intn(300)
				if r.chance(30) {
					id = []int{15, 16, 17, 32, 47, 48, 49, 104, 111, 112, 113, 239, 240, 241, 255, 256, 257}[r.intn(17)]
				}
				if !used[id] {
					used[id] = true
					q = append(q, id)
				}
			}
			if r.chance(50) { // ascending order makes every step a jump ahead
				for i := 1; i < len(q); i++ {
					for j := i; j > 0 && q[j] < q[j-1]; j-- {
						q[j], q[j-1] = q[j-1], q[j]
					}
				}
			}
			seqs = append(seqs, q)
		}
	}
	return seqs
}

func c5sweepVal(seqs [][]int) *Val {
	lt := &Ty{K: thrift.LIST, Elem: &Ty{K: thrift.STRUCT, Name: "S"}}
	v := &Val{T: lt}
	for _, q := range seqs {
		v.Elems = append(v.Elems, c5idStruct(q))
	}
	return v
}

func (c *c5run) sweepCase(k int) {
	r := c.g.r
	nloads := 1 + r.intn(2)
	for li := 0; li < nloads; li++ {
		if li > 0 && r.chance(30) {
			c.opPool()
		}
		seqs := c5sweepSeqs(r, k+li*(7+r.intn(40)))
		if li > 0 { // other sequences meet the capacities the first load left behind
			for i := len(seqs) - 1; i > 0; i-- {
				j := r.intn(i + 1)
				seqs[i], seqs[j] = seqs[j], seqs[i]
			}
		}
		v := c5sweepVal(seqs)
		rec := (k+li)%2 == 0
		c.opLoad(rec, v)
		c.opMarshal(nil)
		seen := map[int]bool{}
		for i := 0; i < 6 && len(seqs) > 0; i++ {
			j := r.intn(len(seqs))
			if seen[j] {
				continue
			}
			seen[j] = true
			p := []Step{{Kind: 2, N: int64(j)}}
			if !rec {
				c.opLoadAt(p, r.bool())
			}
			q := seqs[j]
			c.opGet(p, Step{Kind: 1, N: int64(q[r.intn(len(q))])})
			if r.chance(30) {
				c.opGet(p, Step{Kind: 1, N: int64(1 + r.intn(300))})
			}
			if r.chance(30) {
				c.opMarshal(p)
			}
		}
		c.opMarshal(nil)
	}
}

// ---- big trees: marshalled output of 4..40 KiB ----
// The output buffer of Marshal (pooled, initial capacity 4096) and a small caller buffer of MarshalIntoBuffer must GROW
// while such a tree is written; cleared children and table holes at LATE positions are then skipped after a growth step.
// Few children with long string payloads keep the model cheap.

func (g *c5gen) longStr(n int) *Val {
	b := make([]byte, n)
	seed := g.r.bytes(16)
	for i := range b {
		b[i] = seed[i%16] + byte(i/16)
	}
	return &Val{T: c5ty(thrift.STRING), S: b}
}

func (g *c5gen) bigVal(k int) *Val {
	r := g.r
	total := []int{5000, 9000, 14000, 6000, 24000, 11000, 40000, 7000}[k%8] + r.intn(1500)
	n := 18 + r.intn(30)
	each := total / n
	st := c5ty(thrift.STRING)
	switch k % 4 {
	case 0:
		kind := thrift.LIST
		if r.bool() {
			kind = thrift.SET
		}
		v := &Val{T: &Ty{K: kind, Elem: st}}
		for i := 0; i < n; i++ {
			v.Elems = append(v.Elems, g.longStr(each+r.intn(40)))
		}
		return v
	case 1:
		v := &Val{T: &Ty{K: thrift.MAP, Key: st, Elem: st}}
		for i := 0; i < n; i++ {
			v.Keys = append(v.Keys, &Val{T: st, S: []byte(fmt.Sprintf("key-%d-%d", i, r.intn(1000)))})
			v.Elems = append(v.Elems, g.longStr(each+r.intn(40)))
		}
		return v
	case 2:
		kt := c5ty([]thrift.Type{thrift.I32, thrift.I64, thrift.I16}[r.intn(3)])
		v := &Val{T: &Ty{K: thrift.MAP, Key: kt, Elem: st}}
		for i := 0; i < n; i++ {
			v.Keys = append(v.Keys, &Val{T: kt, I: int64(i*7 + 1)})
			v.Elems = append(v.Elems, g.longStr(each+r.intn(40)))
		}
		return v
	default: // struct: long strings and one long list
		t := &Ty{K: thrift.STRUCT, Name: "S"}
		v := &Val{T: t}
		lt := &Ty{K: thrift.LIST, Elem: st}
		for i := 0; i < 6; i++ {
			id := int16(1 + i*50)
			if i == 3 {
				lv := &Val{T: lt}
				for j := 0; j < n; j++ {
					lv.Elems = append(lv.Elems, g.longStr(each/2+r.intn(40)))
				}
				t.Fields = append(t.Fields, &Fld{ID: id, T: lt})
				v.FIDs = append(v.FIDs, id)
				v.Fields = append(v.Fields, lv)
				continue
			}
			t.Fields = append(t.Fields, &Fld{ID: id, T: st})
			v.FIDs = append(v.FIDs, id)
			v.Fields = append(v.Fields, g.longStr(total/12+r.intn(40)))
		}
		return v
	}
}

func (c *c5run) bigCase(k int) {
	r := c.g.r
	nloads := 1 + r.intn(2)
	for li := 0; li < nloads; li++ {
		if li > 0 && r.chance(30) {
			c.opPool()
		}
		v := c.g.bigVal(k + li*3)
		rec := r.chance(60)
		c.opLoad(rec, v)
		c.opMarshal(nil)
		c.opMarshalInto(nil, r.intn(5))
		c.opRetain()
		// the container whose children are edited: the root, or the long list inside the struct
		tg := &c5target{val: v, leafKid: !rec, touched: map[string]bool{}}
		if v.T.K == thrift.STRUCT && rec {
			tg = &c5target{path: []Step{{Kind: 1, N: int64(uint16(v.FIDs[3]))}}, val: v.Fields[3], leafKid: false, touched: map[string]bool{}}
		}
		ks, cs := c5children(tg.val)
		late := func() int { return len(ks) - 1 - r.intn(1+len(ks)/4) } // positions in the last quarter
		for round := 0; round < 2 && len(ks) > 0; round++ {
			for i := 0; i < 1+r.intn(3); i++ {
				j := late()
				if r.chance(70) {
					c.opClear(tg.path, ks[j])
				} else if cs[j].T.K == thrift.STRING {
					c.opSet(tg.path, ks[j], c.g.longStr(100+r.intn(600)))
				}
			}
			c.opMarshal(nil)
			c.opMarshalInto(nil, 1+round) // small / exact caller buffer: must grow resp. just fits
			if r.chance(50) {
				c.opMarshalInto(tg.path, r.intn(5))
			}
			if r.chance(40) {
				c.opTyped(nil)
			}
			c.opRetain()
		}
		c.opGet(tg.path, ks[late()])
		c.opMarshal(nil)
		c.opRetain()
	}
}

func genC05(r *rng, n int) {
	for ci := 0; ci < n; ci++ {
		g := &c5gen{r: r.fork()}
		g.tg = newTgen(g.r)
		g.tg.maxDepth = 2
		if ci%25 == 7 {
			bits := (ci / 25) % 16 // every option set over the big cases of one run
			opts := &generic.Options{StoreChildrenById: bits&1 != 0, StoreChildrenByHash: bits&2 != 0, NotScanParentNode: bits&4 != 0, UseNativeSkip: bits&8 != 0}
			c := &c5run{g: g, opts: opts, pn: &generic.PathNode{}, hashes: map[string]uint64{}}
			c.bigCase(ci / 25)
			fields := []string{fi(bits), fi(len(c.hkeys))}
			for _, k := range c.hkeys {
				fields = append(fields, fs(k), fu(c.hashes[k]))
			}
			fields = append(fields, fi(c.nops))
			fields = append(fields, c.ops...)
			out.emit(501, fields...)
			continue
		}
		if ci%5 == 4 {
			bits := 1 | (ci/5%8)<<1 // StoreChildrenById with every combination of the other options
			opts := &generic.Options{StoreChildrenById: true, StoreChildrenByHash: bits&2 != 0, NotScanParentNode: bits&4 != 0, UseNativeSkip: bits&8 != 0}
			c := &c5run{g: g, opts: opts, pn: &generic.PathNode{}, hashes: map[string]uint64{}}
			c.sweepCase(ci / 5)
			fields := []string{fi(bits), "n0", fi(c.nops)}
			fields = append(fields, c.ops...)
			out.emit(501, fields...)
			continue
		}
		bits := ci % 16
		if r.chance(25) {
			bits &= 3 // more weight on the storage options alone
		}
		opts := &generic.Options{
			StoreChildrenById:   bits&1 != 0,
			StoreChildrenByHash: bits&2 != 0,
			NotScanParentNode:   bits&4 != 0,
			UseNativeSkip:       bits&8 != 0,
		}
		c := &c5run{g: g, opts: opts, pn: &generic.PathNode{}, hashes: map[string]uint64{}}
		rr := g.r
		rootT := g.rootTy()
		nloads := 1 + rr.intn(3)
		// size schedule: big -> small -> big, small -> big, equal ...
		sizes := []int{g.size(), g.size(), g.size()}
		if rr.chance(50) {
			sizes = []int{c5sizes[3+rr.intn(3)], c5sizes[rr.intn(5)], c5sizes[3+rr.intn(3)]}
			if rr.chance(30) {
				sizes[1] = 40
				sizes[0] = 200
			}
		}
		for li := 0; li < nloads; li++ {
			if li > 0 {
				if rr.chance(25) {
					c.opPool()
				}
				if rr.chance(15) {
					rootT = g.rootTy() // a pooled node is reused for another shape
				}
			}
			rec := rr.chance(60)
			v := g.rootVal(rootT, sizes[li], []string{"k", "q", "k"}[li])
			c.opLoad(rec, v)
			if rr.chance(80) {
				c.opMarshal(nil)
			}
			tg := &c5target{val: v, leafKid: !rec, touched: map[string]bool{}}
			c.editsOn(tg, rr.intn(9))
			// one level down: a loaded container child (recursive load), or a lazily loaded child that is loaded now
			ks, cs := c5children(v)
			for try := 0; try < 2 && len(ks) > 0; try++ {
				j := rr.intn(len(ks))
				ck := cs[j].T.K
				if ck != thrift.STRUCT && ck != thrift.MAP && ck != thrift.LIST && ck != thrift.SET {
					continue
				}
				if tg.touched[stepStr(ks[j])] {
					continue
				}
				sub := &c5target{path: []Step{ks[j]}, val: cs[j], leafKid: false, touched: map[string]bool{}}
				if !rec {
					subrec := rr.bool()
					c.opLoadAt(sub.path, subrec)
					sub.leafKid = !subrec
				}
				kk, _ := c5children(cs[j])
				if len(kk) == 0 && rec && opts.NotScanParentNode {
					// an empty nested container under NotScanParentNode: only observed through Marshal
					continue
				}
				c.editsOn(sub, 1+rr.intn(5))
				break
			}
			c.opMarshal(nil)
			if rr.chance(50) {
				c.opMarshalInto(nil, rr.intn(5))
			}
			c.opRetain()
			// remember some keys of this load for stale lookups after the next one
			for i, k := range ks {
				if i%7 == 0 || len(ks) < 8 {
					c.stale = append(c.stale, k)
				}
			}
			if len(c.stale) > 40 {
				c.stale = c.stale[len(c.stale)-40:]
			}
		}
		fields := []string{fi(bits), fi(len(c.hashes))}
		for _, k := range c.hkeys {
			fields = append(fields, fs(k), fu(c.hashes[k]))
		}
		fields = append(fields, fi(c.nops))
		fields = append(fields, c.ops...)
		out.emit(501, fields...)
	}
}
