//go:build verif

package main

import (
	"encoding/binary"
	"strings"

	"github.com/cloudwego/dynamicgo/thrift"
)

// 1931: Write{List,Map}BeginWithSizePos + ModifyI32 (header with a provisional count, 0..n elements, the count patched at the recorded
// position or at positions at the very end / in the middle / out of range), judged by coq/model/ThriftSizePos.v.
// 1932: retention of every copy-mode read (ReadBinary(true), ReadString(true), ReadAnyWithDesc(copyString=true)) and the aliasing reads
// (copy off, ReadAny): after the read the source buffer is overwritten and the value compared with its dump taken before.
func init() {
	base := generators["C19"]
	generators["C19"] = func(r *rng, n int) {
		own := &rng{s: mixSeed(r.s ^ 0xC1951E05)}
		if base != nil {
			base(r, n)
		}
		genC19SizePos(own, n)
		genC19Retention(own, n)
	}
}

func genC19SizePos(r *rng, n int) {
	types := []thrift.Type{thrift.BOOL, thrift.I08, thrift.I16, thrift.I32, thrift.I64, thrift.DOUBLE, thrift.STRING, thrift.STRUCT, thrift.MAP, thrift.SET, thrift.LIST}
	for i := 0; i < 150+n/20; i++ {
		pre := r.bytes([]int{0, 0, 1, 3, 4, 7, 16}[r.intn(7)])
		kind := r.intn(2)
		kt, et := types[r.intn(len(types))], types[r.intn(len(types))]
		prov := []int{0, 0, 1, 2, 255, 65536, 2147483647, r.intn(1000)}[r.intn(8)]
		m := []int{0, 0, 0, 1, 2, 3}[r.intn(6)]
		elems := r.bytes([]int{1, 2, 4, 4, 8}[r.intn(5)] * m)
		newn := int32(r.u64())
		if r.chance(60) {
			newn = int32(m)
		}
		var rpos, pos, code int
		var buf []byte
		code = 3
		noPanic(func() {
			p := thrift.NewBinaryProtocolBuffer()
			defer thrift.FreeBinaryProtocolBuffer(p)
			p.Buf = append(p.Buf, pre...)
			if kind == 0 {
				rpos, _ = p.WriteListBeginWithSizePos(et, prov)
			} else {
				rpos, _ = p.WriteMapBeginWithSizePos(kt, et, prov)
			}
			// half of the time the count is patched before the elements are appended
			early := r.bool()
			if !early {
				p.Buf = append(p.Buf, elems...)
			} else {
				elems = nil
			}
			total := len(p.Buf)
			switch r.intn(10) {
			case 0:
				pos = total - 4 // the last i32 of the buffer
			case 1:
				pos = total - 3
			case 2:
				pos = total
			case 3:
				pos = -1 - r.intn(8)
			case 4:
				pos = rpos + r.intn(5) - 2
			case 5:
				pos = r.intn(total + 6)
			case 6:
				pos = total + 1 + r.intn(100000)
			default:
				pos = rpos
			}
			buf = nil
			e := func() (e error) {
				defer func() {
					if recover() != nil {
						code = 3
						buf = append([]byte{}, p.Buf[:total]...)
					}
				}()
				e = p.ModifyI32(pos, newn)
				code = 0
				if e != nil {
					code = 1
				}
				return
			}()
			_ = e
			if buf == nil {
				buf = append([]byte{}, p.Buf...)
			}
		})
		out.emit(1931, fx(pre), fi(kind), fi(int(kt)), fi(int(et)), fi(prov), fx(elems), fn(int64(newn)), fi(pos), fi(rpos), fi(code), fx(buf))
	}
}

func dump19(x interface{}) (string, bool) {
	f, ok := gvEmit19(x)
	return strings.Join(f, " "), ok
}

// read with [read] from a private buffer, dump, overwrite the buffer, dump again
func c19Retain(api int, copyMode bool, db []byte, byName bool, in []byte, read func(p *thrift.BinaryProtocol) (interface{}, error)) {
	buf := append([]byte{}, in...)
	var v interface{}
	var err error
	ok, _ := noPanic(func() {
		p := thrift.NewBinaryProtocol(buf)
		v, err = read(p)
		p.Recycle()
	})
	if !ok || err != nil {
		return
	}
	before, okd := dump19(v)
	if !okd {
		return
	}
	for i := range buf {
		buf[i] ^= 0xFF
	}
	// the pooled protocol is handed out again and written to
	q := thrift.NewBinaryProtocolBuffer()
	q.WriteBinary(in)
	thrift.FreeBinaryProtocolBuffer(q)
	after := ""
	noPanic(func() { after, _ = dump19(v) })
	fields := []string{fi(api), fb(copyMode), fb(before == after), fx(db), fb(byName)}
	fields = append(fields, strings.Fields(before)...)
	out.emit(1932, fields...)
}

func genC19Retention(r *rng, n int) {
	for i := 0; i < 40+n/50; i++ {
		s := r.bytes(r.intn(24))
		in := append(binary.BigEndian.AppendUint32(nil, uint32(len(s))), s...)
		in = append(in, r.bytes(r.intn(4))...)
		cp := r.chance(70)
		c19Retain(0, cp, nil, false, in, func(p *thrift.BinaryProtocol) (interface{}, error) { return p.ReadBinary(cp) })
		c19Retain(1, cp, nil, false, in, func(p *thrift.BinaryProtocol) (interface{}, error) { return p.ReadString(cp) })
	}
	for si := 0; si < 15+n/100; si++ {
		g := newTgen(r.fork())
		g.maxDepth = 3
		g.structKeys = true
		g.keyKinds = []thrift.Type{thrift.STRING, thrift.I08, thrift.I32, thrift.I64, thrift.DOUBLE, thrift.BOOL, thrift.STRING}
		root := g.genStruct(0)
		if si%2 == 1 {
			setBinary(root, true, map[*Ty]bool{})
		}
		desc, err := parseThrift(g.idl(root), thrift.Options{})
		if err != nil {
			die("generated IDL does not parse: %v", err)
		}
		db := descBytes19(root, nil)
		if len(db) > 2048 {
			continue
		}
		for k := 0; k < 3; k++ {
			v := g.genValue(root, 0)
			in := v.encode(nil)
			if len(in) > 3000 {
				continue
			}
			cp, u8, byName := r.chance(75), r.bool(), r.chance(30)
			c19Retain(2, cp, db, byName, in, func(p *thrift.BinaryProtocol) (interface{}, error) {
				return p.ReadAnyWithDesc(desc, u8, cp, false, byName)
			})
			sb, i8 := r.bool(), r.bool()
			c19Retain(3, false, nil, false, in, func(p *thrift.BinaryProtocol) (interface{}, error) { return p.ReadAny(thrift.STRUCT, sb, i8) })
		}
	}
}
