//go:build verif

package main

import (
	"bytes"
	"encoding/hex"
	"fmt"
	"os"

	"github.com/cloudwego/dynamicgo/thrift"
	"github.com/cloudwego/dynamicgo/thrift/generic"
)

func init() { generators["C04"] = genC04 }

// type of the node a path addresses in the abstract shape (nil when the path leaves the shape)
func typeAt(root *Ty, p []Step) *Ty {
	cur := root
	for _, s := range p {
		if cur == nil {
			return nil
		}
		switch s.Kind {
		case 1:
			if cur.K != thrift.STRUCT {
				return nil
			}
			var f *Fld
			for _, x := range cur.Fields {
				if int64(x.ID) == s.N {
					f = x
				}
			}
			if f == nil {
				return nil
			}
			cur = f.T
		case 2:
			if cur.K != thrift.LIST && cur.K != thrift.SET {
				return nil
			}
			cur = cur.Elem
		default:
			if cur.K != thrift.MAP {
				return nil
			}
			cur = cur.Elem
		}
	}
	return cur
}

// a step addressing an ABSENT child of a container of shape t holding value v (insertion point), if one exists
func (g *tgen) absentStep(t *Ty, v *Val) (Step, bool) {
	r := g.r
	switch t.K {
	case thrift.STRUCT:
		for _, f := range t.Fields {
			present := false
			for _, id := range v.FIDs {
				if id == f.ID {
					present = true
				}
			}
			if !present {
				return Step{Kind: 1, N: int64(f.ID)}, true
			}
		}
	case thrift.LIST, thrift.SET:
		return Step{Kind: 2, N: int64(len(v.Elems))}, true
	case thrift.MAP:
		for try := 0; try < 5; try++ {
			k := g.genValue(t.Key, 9)
			kb := k.encode(nil)
			dup := false
			for _, e := range v.Keys {
				if bytes.Equal(e.encode(nil), kb) {
					dup = true
				}
			}
			if dup {
				continue
			}
			switch {
			case t.Key.K == thrift.STRING && r.chance(70):
				return Step{Kind: 3, B: k.S}, true
			case (t.Key.K == thrift.I16 || t.Key.K == thrift.I32 || t.Key.K == thrift.I64) && r.chance(70):
				return Step{Kind: 4, N: k.I}, true
			case t.Key.K == thrift.I08 && k.I >= 0 && r.chance(70):
				return Step{Kind: 4, N: k.I}, true
			default:
				return Step{Kind: 5, B: kb}, true
			}
		}
	}
	return Step{}, false
}

var debugErr = os.Getenv("VERIF_DEBUG") != ""

func genC04(r *rng, n int) {
	nh := n / 8
	if nh < 4 {
		nh = 4
	}
	for hi := 0; hi < nh; hi++ {
		g := newTgen(r.fork())
		g.maxDepth = 3
		root := g.genStruct(0)
		idl := g.idl(root)
		desc, err := parseThrift(idl, thrift.Options{})
		if err != nil {
			die("generated IDL does not parse: %v\n%s", err, idl)
		}
		val := g.genValue(root, 0)
		buf := val.encode(nil)
		typed := r.chance(40)
		node := generic.NewNode(thrift.STRUCT, append([]byte(nil), buf...))
		value := generic.NewValue(desc, append([]byte(nil), buf...))
		fields := []string{fi(int(thrift.STRUCT)), fx(buf)}
		nops := 1 + r.intn(8)
		var ops []string
		done := 0
		// the harness tracks the current abstract value only approximately: after each op it re-derives paths from the
		// ORIGINAL abstract value (paths may have become absent — that is a legitimate case class too)
		var paths [][]Step
		val.allPaths(nil, &paths, 60, r)
		for oi := 0; oi < nops; oi++ {
			base := paths[r.intn(len(paths))]
			var p []Step
			var subT *Ty
			kind := 1
			cls := r.intn(10)
			switch {
			case cls < 4 && len(base) > 0: // replace an existing element / unset it
				p = base
				subT = typeAt(root, p)
				if r.chance(35) {
					kind = 2
				} else if subT != nil && r.chance(15) {
					// a node of a DIFFERENT type (same byte width where there is one): must be an error, value unchanged
					switch subT.K {
					case thrift.I64:
						subT = &Ty{K: thrift.DOUBLE}
					case thrift.DOUBLE:
						subT = &Ty{K: thrift.I64}
					case thrift.BOOL:
						subT = &Ty{K: thrift.I08}
					case thrift.I08:
						subT = &Ty{K: thrift.BOOL}
					case thrift.LIST:
						subT = &Ty{K: thrift.SET, Elem: subT.Elem}
					case thrift.SET:
						subT = &Ty{K: thrift.LIST, Elem: subT.Elem}
					default:
						subT = &Ty{K: thrift.I16}
					}
				}
			case cls < 8: // insert an absent child into the container at base
				ct := typeAt(root, base)
				cv := val.at(base)
				if ct == nil || cv == nil {
					continue
				}
				st, ok := g.absentStep(ct, cv)
				if !ok {
					continue
				}
				p = append(append([]Step(nil), base...), st)
				subT = typeAt(root, p)
				if r.chance(20) {
					kind = 2 // unset something absent
				}
			case cls == 8: // absent-inner
				ct := typeAt(root, base)
				cv := val.at(base)
				if ct == nil || cv == nil {
					continue
				}
				st, ok := g.absentStep(ct, cv)
				if !ok {
					continue
				}
				p = append(append([]Step(nil), base...), st, Step{Kind: 1, N: 1})
				subT = &Ty{K: thrift.I32}
				if r.chance(30) {
					kind = 2
				}
			default: // wrong kind
				cv := val.at(base)
				if cv == nil {
					continue
				}
				bad := g.badStep(cv)
				if bad.Kind == 2 && bad.N < 0 {
					bad.N = -1
				}
				// a step that FITS the parent's kind may be a valid insertion point for the (wrongly typed) I32 sub value,
				// which is outside the API contract for set: such steps are only used for unset
				pk := cv.T.K
				forceUnset := (bad.Kind == 1 && pk == thrift.STRUCT) || (bad.Kind == 2 && (pk == thrift.LIST || pk == thrift.SET)) ||
					(bad.Kind >= 3 && pk == thrift.MAP)
				p = append(append([]Step(nil), base...), bad)
				subT = &Ty{K: thrift.I32}
				if r.chance(30) || forceUnset {
					kind = 2
				}
			}
			if subT == nil {
				continue
			}
			sub := g.genValue(subT, 2)
			sb := sub.encode(nil)
			gp := toPath(p)
			if debugErr {
				println("C04 op:", kind, typed, fmt.Sprint(gp), hex.EncodeToString(node.Raw()), hex.EncodeToString(value.Raw()))
			}
			var exist bool
			var e error
			var res []byte
			flags := 1
			byName := 0
			pEmit := p
			if typed && r.chance(40) {
				if np, changed := nameSteps(root, p, r); changed {
					gp = toPath(np)
					pEmit = np
					if len(np) >= 3 && np[len(np)-1].Kind == 6 {
						byName = 4 // last step addressed by NAME below depth 2 (GetDescByPath is consulted)
					}
				}
			}
			if typed {
				kind += 2
				fork := value.Fork()
				before := append([]byte(nil), fork.Raw()...)
				ok, _ := noPanic(func() {
					if kind == 3 {
						exist, e = value.SetByPath(generic.Value{Node: generic.NewNode(subT.K, append([]byte(nil), sb...)), Desc: descFor(desc, p)}, gp...)
					} else {
						e = value.UnsetByPath(gp...)
					}
				})
				if !ok {
					ops = append(ops, fi(kind))
					ops = append(ops, pathFields(pEmit)...)
					ops = append(ops, fi(int(subT.K)), fx(sb), "n3", "n0", fx(value.Raw()), fi(1|declBit(root, p)|byName))
					done++
					break
				}
				res = value.Raw()
				if !bytes.Equal(before, fork.Raw()) {
					flags = 0
				}
				// the other direction: an edit of a fork must not change the origin
				f2 := value.Fork()
				noPanic(func() {
					if kind == 3 {
						f2.UnsetByPath(gp...)
					} else {
						f2.SetByPath(generic.Value{Node: generic.NewNode(subT.K, append([]byte(nil), sb...)), Desc: descFor(desc, p)}, gp...)
					}
				})
				if !bytes.Equal(res, value.Raw()) {
					flags = 0
				}
			} else {
				fork := node.Fork()
				before := append([]byte(nil), fork.Raw()...)
				ok, _ := noPanic(func() {
					if kind == 1 {
						exist, e = node.SetByPath(generic.NewNode(subT.K, append([]byte(nil), sb...)), gp...)
					} else {
						e = node.UnsetByPath(gp...)
					}
				})
				if !ok {
					ops = append(ops, fi(kind))
					ops = append(ops, pathFields(p)...)
					ops = append(ops, fi(int(subT.K)), fx(sb), "n3", "n0", fx(node.Raw()), fi(1|declBit(root, p)))
					done++
					break
				}
				res = node.Raw()
				if !bytes.Equal(before, fork.Raw()) {
					flags = 0
				}
				f2 := node.Fork()
				noPanic(func() {
					if kind == 1 {
						f2.UnsetByPath(gp...)
					} else {
						f2.SetByPath(generic.NewNode(subT.K, append([]byte(nil), sb...)), gp...)
					}
				})
				if !bytes.Equal(res, node.Raw()) {
					flags = 0
				}
			}
			ei := 0
			if e != nil {
				ei = 1
				if debugErr {
					println("C04 op error:", kind, e.Error(), "\nPATH", fmt.Sprint(gp), "\nIDL", idl, "\nBUF", hex.EncodeToString(buf))
				}
			}
			ops = append(ops, fi(kind))
			ops = append(ops, pathFields(pEmit)...)
			ops = append(ops, fi(int(subT.K)), fx(sb), fi(ei), fb(exist), fx(res), fi(flags|declBit(root, p)|byName))
			done++
			if (kind == 2 || kind == 4) && len(p) > 0 && p[len(p)-1].Kind == 2 && p[len(p)-1].N < 0 {
				break // unset with a negative index: finding 405 may have corrupted the value
			}
		}
		fields = append(fields, fi(done))
		fields = append(fields, ops...)
		out.emit(401, fields...)
		genC04Many(r, g, root, val, buf, paths)
	}
}

// descriptor of the element a path addresses (for building the typed sub value); falls back to the root descriptor
func descFor(root *thrift.TypeDescriptor, p []Step) *thrift.TypeDescriptor {
	d, err := generic.GetDescByPath(root, toPath(p)...)
	if err != nil || d == nil {
		return root
	}
	return d
}

// bit 1 of the flags: every field step of the path is declared in the IDL
func declBit(root *Ty, p []Step) int {
	if declaredIn(root, p) {
		return 2
	}
	return 0
}
