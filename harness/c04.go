//go:build verif

package main

import (
	"bytes"
	"encoding/hex"
	"fmt"
	"os"

	"github.com/cloudwego/dynamicgo/thrift"
	"github.com/cloudwego/dynamicgo/thrift/generic"
)

func init() { generators["C04"] = genC04 }

// type of the node a path addresses in the abstract shape (nil when the path leaves the shape)
func typeAt(root *Ty, p []Step) *Ty {
	cur := root
	for _, s := range p {
		if cur == nil {
			return nil
		}
		switch s.Kind {
		case 1:
			if cur.K != thrift.STRUCT {
				return nil
			}
			var f *Fld
			for _, x := range cur.Fields {
				if int64(x.ID) == s.N {
					f = x
				}
			}
			if f == nil {
				return nil
			}
			cur = f.T
		case 2:
			if cur.K != thrift.LIST && cur.K != thrift.SET {
				return nil
			}
			cur = cur.Elem
		default:
			if cur.K != thrift.MAP {
				return nil
			}
			cur = cur.Elem
		}
	}
	return cur
}

// a step addressing an ABSENT child of a container of shape t holding value v (insertion point), if one exists
func (g *tgen) absentStep(t *Ty, v *Val) (Step, bool) {
	r := g.r
	switch t.K {
	case thrift.STRUCT:
		for _, f := range t.Fields {
			present := false
			for _, id := range v.FIDs {
				if id == f.ID {
					present = true
				}
			}
			if !present {
				return Step{Kind: 1, N: int64(f.ID)}, true
			}
		}
	case thrift.LIST, thrift.SET:
		return Step{Kind: 2, N: int64(len(v.Elems))}, true
	case thrift.MAP:
		for try := 0; try < 5; try++ {
			k := g.genValue(t.Key, 9)
			kb := k.encode(nil)
			dup := false
			for _, e := range v.Keys {
				if bytes.Equal(e.encode(nil), kb) {
					dup = true
				}
			}
			if dup {
				continue
			}
			switch {
			case t.Key.K == thrift.STRING && r.chance(70):
				return Step{Kind: 3, B: k.S}, true
			case (t.Key.K == thrift.I16 || t.Key.K == thrift.I32 || t.Key.K == thrift.I64) && r.chance(70):
				return Step{Kind: 4, N: k.I}, true
			case t.Key.K == thrift.I08 && k.I >= 0 && r.chance(70):
				return Step{Kind: 4, N: k.I}, true
			default:
				return Step{Kind: 5, B: kb}, true
			}
		}
	}
	return Step{}, false
}

var debugErr = os.Getenv("VERIF_DEBUG") != ""

func genC04(r *rng, n int) {
	nh := n / 8
	if nh < 4 {
		nh = 4
	}
	for hi := 0; hi < nh; hi++ {
		g := newTgen(r.fork())
		g.maxDepth = 3
		g.allowReq = true // required / optional / default fields at every level (name-addressed edits consult the field descriptor)
		root := g.genStruct(0)
		if r.chance(30) {
			// a map (keyed by double / struct / string / i32) of structs: paths through a map entry that end in a field
			var kt *Ty
			switch r.intn(4) {
			case 0:
				kt = &Ty{K: thrift.DOUBLE}
			case 1:
				kt = g.genStruct(g.maxDepth)
			case 2:
				kt = &Ty{K: thrift.STRING}
			default:
				kt = &Ty{K: thrift.I32}
			}
			id := int16(20000 + r.intn(10000))
			root.Fields = append(root.Fields, &Fld{ID: id, Name: fmt.Sprintf("mx_%d", id), T: &Ty{K: thrift.MAP, Key: kt, Elem: g.genStruct(2)}})
		}
		rootMode := r.chance(25)
		top := root // the struct the IDL's service method takes
		if rootMode {
			// the ROOT value is a container (not wrapped in a struct): its last byte is the end of the buffer
			var ct *Ty
			switch r.intn(4) {
			case 0:
				ct = &Ty{K: thrift.LIST, Elem: g.genType(2)}
			case 1:
				ct = &Ty{K: thrift.SET, Elem: g.genType(2)}
			case 2:
				ct = &Ty{K: thrift.LIST, Elem: &Ty{K: thrift.LIST, Elem: g.genType(3)}}
			default:
				ct = &Ty{K: thrift.MAP, Key: &Ty{K: g.keyKinds[r.intn(len(g.keyKinds))]}, Elem: g.genType(2)}
			}
			g.nname++
			top = &Ty{K: thrift.STRUCT, Name: fmt.Sprintf("W%d", g.nname), Fields: []*Fld{{ID: 1, Name: "w", T: ct}}}
			g.structs = append(g.structs, top)
			root = ct
		}
		idl := g.idl(top)
		desc, err := parseThrift(idl, thrift.Options{})
		if err != nil {
			die("generated IDL does not parse: %v\n%s", err, idl)
		}
		if rootMode {
			desc = desc.Struct().FieldById(1).Type()
		}
		val := g.genValue(root, 0)
		if rootMode {
			if r.chance(30) {
				val.Elems, val.Keys = nil, nil // empty root container
			}
			if root.K == thrift.LIST && root.Elem.K == thrift.LIST && len(val.Elems) > 0 && r.chance(60) {
				val.Elems[len(val.Elems)-1].Elems = nil // empty LAST element of a root list<list<..>>
			}
		}
		buf := val.encode(nil)
		typed := r.chance(40)
		node := generic.NewNode(root.K, append([]byte(nil), buf...))
		value := generic.NewValue(desc, append([]byte(nil), buf...))
		fields := []string{fi(int(root.K)), fx(buf)}
		nops := 1 + r.intn(8)
		// scripted ops run first
		type scriptOp struct {
			kind int
			p    []Step
			subT *Ty
			name bool
		}
		var script []scriptOp
		if rootMode {
			if len(val.Elems) > 0 && r.chance(60) { // empty the root container by unsets, front to back
				for i := range val.Elems {
					st := Step{Kind: 2, N: 0}
					if root.K == thrift.MAP {
						st = Step{Kind: 5, B: val.Keys[i].encode(nil)}
					}
					script = append(script, scriptOp{kind: 2, p: []Step{st}, subT: root.Elem})
				}
			}
			for k := 0; k < 1+r.intn(2); k++ { // (re)fill it
				if st, ok := g.absentStep(root, val); ok {
					script = append(script, scriptOp{kind: 1, p: []Step{st}, subT: root.Elem})
				}
			}
			if root.K == thrift.LIST && root.Elem.K == thrift.LIST && len(val.Elems) > 0 && len(script) <= 2 {
				last := len(val.Elems) - 1
				script = append([]scriptOp{{kind: 1, p: []Step{{Kind: 2, N: int64(last)}, {Kind: 2, N: int64(len(val.Elems[last].Elems))}}, subT: root.Elem.Elem}}, script...)
			}
		} else if typed {
			// Value API through a map entry addressed by its RAW key, ending in a field NAME: unset a field / insert a missing one
			var all [][]Step
			val.allPaths(nil, &all, 200, r)
			n := 0
			for _, b := range all {
				cv := val.at(b)
				ct := typeAt(root, b)
				if cv == nil || ct == nil || cv.T.K != thrift.STRUCT || len(b) < 2 || !declaredIn(root, b) {
					continue
				}
				bb, hasMap := binForm(val, b)
				if !hasMap {
					continue
				}
				if len(cv.FIDs) > 0 && r.chance(60) {
					id := cv.FIDs[r.intn(len(cv.FIDs))]
					script = append(script, scriptOp{kind: 2, p: append(append([]Step(nil), bb...), Step{Kind: 1, N: int64(id)}), subT: &Ty{K: thrift.I32}, name: true})
				}
				if st, ok := g.absentStep(ct, cv); ok {
					pp := append(append([]Step(nil), bb...), st)
					script = append(script, scriptOp{kind: 1, p: pp, subT: typeAt(root, pp), name: true})
				}
				n++
				if n >= 2 {
					break
				}
			}
		}
		if nops < len(script) {
			nops = len(script)
		}
		var ops []string
		done := 0
		// the harness tracks the current abstract value only approximately: after each op it re-derives paths from the
		// ORIGINAL abstract value (paths may have become absent — that is a legitimate case class too)
		var paths [][]Step
		val.allPaths(nil, &paths, 60, r)
		for oi := 0; oi < nops; oi++ {
			base := paths[r.intn(len(paths))]
			var p []Step
			var subT *Ty
			kind := 1
			cls := r.intn(10)
			forceName := false
			wrongType := false
			if oi < len(script) {
				cls = 100
				p, subT, kind, forceName = script[oi].p, script[oi].subT, script[oi].kind, script[oi].name
			}
			switch {
			case cls == 100: // scripted
			case cls < 4 && len(base) > 0: // replace an existing element / unset it
				p = base
				subT = typeAt(root, p)
				if r.chance(35) {
					kind = 2
				} else if subT != nil && r.chance(15) {
					wrongType = true
					// a node of a DIFFERENT type (same byte width where there is one): must be an error, value unchanged
					switch subT.K {
					case thrift.I64:
						subT = &Ty{K: thrift.DOUBLE}
					case thrift.DOUBLE:
						subT = &Ty{K: thrift.I64}
					case thrift.BOOL:
						subT = &Ty{K: thrift.I08}
					case thrift.I08:
						subT = &Ty{K: thrift.BOOL}
					case thrift.LIST:
						subT = &Ty{K: thrift.SET, Elem: subT.Elem}
					case thrift.SET:
						subT = &Ty{K: thrift.LIST, Elem: subT.Elem}
					default:
						subT = &Ty{K: thrift.I16}
					}
				}
			case cls < 8: // insert an absent child into the container at base
				ct := typeAt(root, base)
				cv := val.at(base)
				if ct == nil || cv == nil {
					continue
				}
				st, ok := g.absentStep(ct, cv)
				if !ok {
					continue
				}
				p = append(append([]Step(nil), base...), st)
				subT = typeAt(root, p)
				if r.chance(20) {
					kind = 2 // unset something absent
				}
			case cls == 8: // absent-inner
				ct := typeAt(root, base)
				cv := val.at(base)
				if ct == nil || cv == nil {
					continue
				}
				st, ok := g.absentStep(ct, cv)
				if !ok {
					continue
				}
				p = append(append([]Step(nil), base...), st, Step{Kind: 1, N: 1})
				subT = &Ty{K: thrift.I32}
				if r.chance(30) {
					kind = 2
				}
			default: // wrong kind
				cv := val.at(base)
				if cv == nil {
					continue
				}
				bad := g.badStep(cv)
				if bad.Kind == 2 && bad.N < 0 {
					bad.N = -1
				}
				// a step that FITS the parent's kind may be a valid insertion point for the (wrongly typed) I32 sub value,
				// which is outside the API contract for set: such steps are only used for unset
				pk := cv.T.K
				forceUnset := (bad.Kind == 1 && pk == thrift.STRUCT) || (bad.Kind == 2 && (pk == thrift.LIST || pk == thrift.SET)) ||
					(bad.Kind >= 3 && pk == thrift.MAP)
				p = append(append([]Step(nil), base...), bad)
				subT = &Ty{K: thrift.I32}
				if r.chance(30) || forceUnset {
					kind = 2
				}
			}
			if subT == nil {
				continue
			}
			sub := g.genValue(subT, 2)
			sb := sub.encode(nil)
			gp := toPath(p)
			if debugErr {
				println("C04 op:", kind, typed, fmt.Sprint(gp), hex.EncodeToString(node.Raw()), hex.EncodeToString(value.Raw()))
			}
			var exist bool
			var e error
			var res []byte
			flags := 1
			byName := 0
			pEmit := p
			if typed && (forceName || r.chance(40)) {
				if np, changed := nameSteps(root, p, r); changed {
					gp = toPath(np)
					pEmit = np
					if len(np) >= 3 && np[len(np)-1].Kind == 6 {
						byName = 4 // last step addressed by NAME below depth 2 (GetDescByPath is consulted)
					}
				}
			}
			if typed {
				kind += 2
				fork := value.Fork()
				before := append([]byte(nil), fork.Raw()...)
				ok, _ := noPanic(func() {
					if kind == 3 {
						exist, e = value.SetByPath(generic.Value{Node: generic.NewNode(subT.K, append([]byte(nil), sb...)), Desc: descFor(desc, p)}, gp...)
					} else {
						e = value.UnsetByPath(gp...)
					}
				})
				if !ok {
					ops = append(ops, fi(kind))
					ops = append(ops, pathFields(pEmit)...)
					ops = append(ops, fi(int(subT.K)), fx(sb), "n3", "n0", fx(value.Raw()), fi(1|declBit(root, p)|byName))
					done++
					break
				}
				res = value.Raw()
				if !bytes.Equal(before, fork.Raw()) {
					flags = 0
				}
				// the other direction: an edit of a fork must not change the origin
				f2 := value.Fork()
				noPanic(func() {
					if kind == 3 {
						f2.UnsetByPath(gp...)
					} else {
						f2.SetByPath(generic.Value{Node: generic.NewNode(subT.K, append([]byte(nil), sb...)), Desc: descFor(desc, p)}, gp...)
					}
				})
				if !bytes.Equal(res, value.Raw()) {
					flags = 0
				}
			} else {
				fork := node.Fork()
				before := append([]byte(nil), fork.Raw()...)
				ok, _ := noPanic(func() {
					if kind == 1 {
						exist, e = node.SetByPath(generic.NewNode(subT.K, append([]byte(nil), sb...)), gp...)
					} else {
						e = node.UnsetByPath(gp...)
					}
				})
				if !ok {
					ops = append(ops, fi(kind))
					ops = append(ops, pathFields(p)...)
					ops = append(ops, fi(int(subT.K)), fx(sb), "n3", "n0", fx(node.Raw()), fi(1|declBit(root, p)))
					done++
					break
				}
				res = node.Raw()
				if !bytes.Equal(before, fork.Raw()) {
					flags = 0
				}
				f2 := node.Fork()
				noPanic(func() {
					if kind == 1 {
						f2.UnsetByPath(gp...)
					} else {
						f2.SetByPath(generic.NewNode(subT.K, append([]byte(nil), sb...)), gp...)
					}
				})
				if !bytes.Equal(res, node.Raw()) {
					flags = 0
				}
			}
			ei := 0
			if e != nil {
				ei = 1
				if debugErr {
					println("C04 op error:", kind, e.Error(), "\nPATH", fmt.Sprint(gp), "\nIDL", idl, "\nBUF", hex.EncodeToString(buf))
				}
			}
			ops = append(ops, fi(kind))
			ops = append(ops, pathFields(pEmit)...)
			ops = append(ops, fi(int(subT.K)), fx(sb), fi(ei), fb(exist), fx(res), fi(flags|declBit(root, p)|byName))
			done++
			if wrongType && e == nil {
				// the target had been removed by an earlier op, so the wrongly typed node was INSERTED: the value no longer
				// conforms to its descriptor (outside the API contract); the history ends here
				break
			}
			if (kind == 2 || kind == 4) && len(p) > 0 && p[len(p)-1].Kind == 2 && p[len(p)-1].N < 0 {
				break // unset with a negative index: finding 405 may have corrupted the value
			}
		}
		fields = append(fields, fi(done))
		fields = append(fields, ops...)
		out.emit(401, fields...)
		genC04Many(r, g, root, val, buf, paths)
	}
}

// descriptor of the element a path addresses (for building the typed sub value); falls back to the root descriptor
func descFor(root *thrift.TypeDescriptor, p []Step) *thrift.TypeDescriptor {
	d, err := generic.GetDescByPath(root, toPath(p)...)
	if err != nil || d == nil {
		return root
	}
	return d
}

// bit 1 of the flags: every field step of the path is declared in the IDL
func declBit(root *Ty, p []Step) int {
	if declaredIn(root, p) {
		return 2
	}
	return 0
}

// the same path with every map step spelled as a raw (binary) key; reports whether the path passes through a map
func binForm(v *Val, p []Step) ([]Step, bool) {
	cur := v
	out := make([]Step, 0, len(p))
	hasMap := false
	for _, s := range p {
		if cur == nil {
			return nil, false
		}
		switch s.Kind {
		case 1:
			next := (*Val)(nil)
			for i, id := range cur.FIDs {
				if int64(id) == s.N {
					next = cur.Fields[i]
					break
				}
			}
			out = append(out, s)
			cur = next
		case 2:
			if s.N < 0 || int(s.N) >= len(cur.Elems) {
				return nil, false
			}
			out = append(out, s)
			cur = cur.Elems[s.N]
		default:
			next := (*Val)(nil)
			for i, k := range cur.Keys {
				if (s.Kind == 3 && string(k.S) == string(s.B)) || (s.Kind == 4 && k.I == s.N) || (s.Kind == 5 && string(k.encode(nil)) == string(s.B)) {
					out = append(out, Step{Kind: 5, B: k.encode(nil)})
					next = cur.Elems[i]
					hasMap = true
					break
				}
			}
			cur = next
		}
	}
	if cur == nil {
		return nil, false
	}
	return out, hasMap
}
