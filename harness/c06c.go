//go:build verif

// C06, third part: the DOM load and the protobuf path search on MALFORMED input against their byte-level models
//   614 thrift/generic PathNode.Load   vs ThriftDom.load          type bytes recurse notScanParent status nodes
//   615 proto/generic Value.GetByPath  vs ProtoGenericAlg.gbp     (layout of check 702, api 1) schema.. bytes 1 #q {path status type raw}
// Judged by coq/model/Check06c.v (same policy as 611-613).
package main

import (
	"github.com/cloudwego/dynamicgo/thrift"
	"github.com/cloudwego/dynamicgo/thrift/generic"
	pgeneric "github.com/cloudwego/dynamicgo/proto/generic"
)

func init() {
	base := generators["C06"]
	generators["C06"] = func(r *rng, n int) {
		base(r, n)
		genC06c(r.fork(), n)
	}
}

func countPathNodes(p *generic.PathNode) int {
	n := 1
	for i := range p.Next {
		if p.Next[i].IsEmpty() {
			continue
		}
		n += countPathNodes(&p.Next[i])
	}
	return n
}

func emit614(t thrift.Type, b []byte, rec, ns bool) {
	if len(b) == 0 {
		return
	}
	st, nodes := 3, 0
	noPanic(func() {
		pn := generic.PathNode{Node: generic.NewNode(t, b)}
		err := pn.Load(rec, &generic.Options{NotScanParentNode: ns})
		if err != nil {
			st = 1
		} else {
			st = 0
			nodes = countPathNodes(&pn)
		}
	})
	out.emit(614, fi(int(t)), fx(b), fb(rec), fb(ns), fi(st), fi(nodes))
}

func genC06c(r *rng, n int) {
	// ---- 614
	nv := n / 250
	if nv < 4 {
		nv = 4
	}
	for _, m := range genThriftMsgs(r.fork(), nv) {
		rr := r.fork()
		for _, in := range thriftVariants(rr, 0, m, 40, 2) {
			emit614(thrift.STRUCT, in.b, rr.bool(), rr.chance(30))
		}
		for _, sub := range subValues(m.val, 3) {
			if sub.T.K == thrift.STRUCT {
				continue
			}
			var ps []bpos
			sm := &tmsg{root: sub.T, val: sub}
			sm.buf = sub.encodePos(nil, &ps)
			sm.pos = ps
			if len(sm.buf) > 200 {
				continue
			}
			for _, in := range thriftVariants(rr, 0, sm, 20, 2) {
				emit614(sub.T.K, in.b, rr.bool(), rr.chance(30))
			}
		}
	}
	// ---- 615
	made := 0
	for made < n/4 {
		sr := r.fork()
		s := genProtoSchema(sr, pgOpts{MaxMsgs: 3, MaxFields: 6, MaxDepth: 3})
		c, err := compileProtoSchema(s)
		if err != nil {
			continue
		}
		sf := s.caseFields()
		vr := r.fork()
		val := genProtoValue(vr, c, s.Root, 0)
		bs, err := c.encodeRef(val, s.Root)
		if err != nil || len(bs) == 0 || len(bs) > 250 {
			continue
		}
		valid, _ := c07Paths(vr, c, val)
		valid = c07Sample(vr, valid, 5)
		if len(valid) == 0 {
			continue
		}
		m := &pmsg{buf: bs}
		wireScan(bs, 0, 0, &m.pos)
		for _, in := range protoVariants(vr, 0, m, 30, 2) {
			b := in.b
			fields := append(append([]string{}, sf...), fx(b), fi(1), fi(len(valid)))
			for _, p := range valid {
				fields = append(fields, p.fields(false, nil, vr)...)
				obs := c07Panic
				noPanic(func() { obs = c07ObsNode(pgeneric.NewRootValue(c.Dyn, b).GetByPath(p.goPath(false)...).Node) })
				fields = append(fields, obs...)
			}
			out.emit(615, fields...)
			made++
		}
	}
}
