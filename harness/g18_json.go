//go:build verif

package main

import (
	"github.com/cloudwego/dynamicgo/internal/json"
	"github.com/cloudwego/dynamicgo/internal/jsonportable"
	"github.com/cloudwego/dynamicgo/internal/rt"
)

// Generated-definition checks for gen/Gen_json.v, gen/Gen_rt.v, gen/Gen_jsonportable.v (ids 292 under C02, 391 under C03, 1891 under C18):
// IsSpace over every byte, the SafeSet / Hex tables, and the portable quoteString (internal/json/api_compat.go compiled as package
// jsonportable) on every one- and two-byte string over an alphabet of interesting bytes, strings around U+2028 / U+2029, and random
// strings - the Gallina checker re-runs the loop around the two generated per-byte steps.
func init() {
	for _, p := range []struct {
		prop string
		id   int
	}{{"C02", 292}, {"C03", 391}, {"C18", 1891}} {
		base, id := generators[p.prop], p.id
		generators[p.prop] = func(r *rng, n int) {
			genJSONLeaf(g2cRng(r), id)
			base(r, n)
		}
	}
}

func genJSONLeaf(r *rng, id int) {
	img := make([]byte, 256)
	for c := 0; c < 256; c++ {
		img[c] = byte(b2i(json.IsSpace(byte(c))))
	}
	out.emit(id, fi(0), fx(img))
	safe := make([]byte, len(rt.SafeSet))
	for i, v := range rt.SafeSet {
		safe[i] = byte(b2i(v))
	}
	out.emit(id, fi(1), fx(safe), fs(rt.Hex))
	quote := func(prefix, s []byte) {
		buf := append(make([]byte, 0, len(prefix)+2), prefix...)
		jsonportable.NoQuote(&buf, string(s))
		out.emit(id, fi(2), fx(prefix), fx(s), fx(buf))
	}
	for c := 0; c < 256; c++ {
		quote(nil, []byte{byte(c)})
	}
	alpha := []byte{0, 1, 8, 9, 10, 12, 13, 31, 32, 34, 47, 60, 62, 38, 92, 97, 127, 128, 168, 169, 191, 194, 226, 239, 240, 255}
	for _, a := range alpha {
		for _, b := range alpha {
			quote([]byte("p"), []byte{a, b})
		}
	}
	seps := [][]byte{{0xe2, 0x80, 0xa8}, {0xe2, 0x80, 0xa9}, {0xe2, 0x80, 0xa7}, {0xe2, 0x80}, {0xe2, 0x81, 0xa8}, {0xf0, 0xe2, 0x80, 0xa8}, {0xe2, 0xe2, 0x80, 0xa9, 0xa8}}
	for _, sp := range seps {
		for _, pre := range [][]byte{nil, []byte("a"), []byte("\"\n"), {0xc3, 0xa9}} {
			for _, post := range [][]byte{nil, []byte("z"), []byte("\\"), {0xe2, 0x80, 0xa8}} {
				s := append(append(append([]byte{}, pre...), sp...), post...)
				quote(nil, s)
			}
		}
	}
	for k := 0; k < 300; k++ {
		n := r.intn(24)
		s := make([]byte, n)
		for i := range s {
			switch r.intn(4) {
			case 0:
				s[i] = alpha[r.intn(len(alpha))]
			case 1:
				s[i] = byte(32 + r.intn(95))
			default:
				s[i] = byte(r.next())
			}
		}
		quote(r.bytes(r.intn(3)), s)
	}
}
