//go:build verif

// C08: conv/p2j (Protobuf -> JSON).  Check 801, one conversion per case (see coq/model/Check08.v for the fields).
//
// Inputs: random proto3 schemas of protogen.go (every scalar kind, enums, nested / recursive messages, repeated and map
// fields with every legal key kind, parent and child sharing a field number), some repeated numeric fields declared
// [packed=false]; messages of genProtoValue with a share of the scalars replaced by the boundary values of their kind
// (0, +-1, min/max of the width, 2^31, 2^63, 2^64-1, NaN, +-Inf, -0, subnormals); encoded by the reference
// (jhump/protoreflect dynamic.Message); optionally followed by records with undeclared numbers (unknown fields);
// options Int642String x DisallowUnknownField.  Plus a systematic sweep: one message per (kind, boundary value) with
// the value as singular field, packed element, unpacked element, map key and map value.
// The harness only reports what p2j returned; decoding, expectation and JSON parsing happen in the Gallina checker.
package main

import (
	"bytes"
	"context"
	"encoding/hex"
	"encoding/json"
	"fmt"
	"io"
	"math"
	"math/big"
	"os"
	"os/exec"
	"strings"
	"time"

	"github.com/cloudwego/dynamicgo/conv"
	"github.com/cloudwego/dynamicgo/conv/p2j"
	"github.com/cloudwego/dynamicgo/proto"
	"github.com/jhump/protoreflect/desc"
	"github.com/jhump/protoreflect/desc/protoparse"
	rw "google.golang.org/protobuf/encoding/protowire"
)

func init() {
	if os.Getenv("VERIF_C08_CHILD") == "1" {
		c08Child()
		os.Exit(0)
	}
	generators["C08"] = genC08
}

const c08Watchdog = 2 * time.Second

// hook for additional checks over the cases of check 801 (set by other files of the harness in their init)
var c08Extra func(fields []string)

// ---- schema text / case fields with [packed=false] ------------------------------------------------

func c08Text(s *pgSchema, unpacked map[*pgField]bool) string {
	var b strings.Builder
	b.WriteString("syntax = \"proto3\";\n")
	fmt.Fprintf(&b, "package %s;\n", s.Pkg)
	for _, e := range s.Enums {
		fmt.Fprintf(&b, "enum %s {\n", e.Name)
		for i, v := range e.Values {
			fmt.Fprintf(&b, "  %s_V%d = %d;\n", e.Name, i, v)
		}
		b.WriteString("}\n")
	}
	for _, m := range s.Msgs {
		fmt.Fprintf(&b, "message %s {\n", m.Name)
		for _, f := range m.Fields {
			opt := ""
			if unpacked[f] {
				opt = " [packed=false]"
			}
			fmt.Fprintf(&b, "  %s %s = %d%s;\n", f.typeText(), f.Name, f.Num, opt)
		}
		b.WriteString("}\n")
	}
	fmt.Fprintf(&b, "service PgSvc { rpc M(%s) returns (%s); }\n", s.Root, s.Root)
	return b.String()
}

// as pgSchema.caseFields, with label 2 for repeated [packed=false]
func c08SchemaFields(s *pgSchema, unpacked map[*pgField]bool) []string {
	out := []string{fs(s.Root), fi(len(s.Msgs))}
	for _, m := range s.Msgs {
		out = append(out, fs(m.Name), fi(len(m.Fields)))
		for _, f := range m.Fields {
			label := f.Label
			if unpacked[f] {
				label = 2
			}
			out = append(out, fi(int(f.Num)), fs(f.Name), fs(f.JSONName), fi(label), fi(f.Kind), fi(f.KeyKind), fs(f.MsgName))
		}
	}
	return out
}

// reference descriptors + dynamicgo descriptor of the root for the given text (the part of compileProtoSchema C08 needs)
func c08Compile(s *pgSchema, text string) (*pgCompiled, error) {
	c := &pgCompiled{S: s, Text: text, RefMsgs: map[string]*desc.MessageDescriptor{}, DynMsgs: map[string]*proto.TypeDescriptor{}}
	p := protoparse.Parser{Accessor: protoparse.FileContentsFromMap(map[string]string{pgFileName: text})}
	fds, err := p.ParseFiles(pgFileName)
	if err != nil {
		return nil, fmt.Errorf("protoparse: %v", err)
	}
	c.RefFile = fds[0]
	for _, md := range c.RefFile.GetMessageTypes() {
		c.RefMsgs[md.GetName()] = md
	}
	for _, m := range s.Msgs {
		md := c.RefMsgs[m.Name]
		if md == nil {
			return nil, fmt.Errorf("protoparse: message %s missing", m.Name)
		}
		for _, f := range m.Fields {
			fd := md.FindFieldByNumber(f.Num)
			if fd == nil {
				return nil, fmt.Errorf("protoparse: field %s.%s missing", m.Name, f.Name)
			}
			f.JSONName = fd.GetJSONName()
		}
	}
	dyn, err := c08DynDesc(text)
	if err != nil {
		return nil, err
	}
	c.Dyn = dyn
	return c, nil
}

func c08DynDesc(text string) (*proto.TypeDescriptor, error) {
	var svc *proto.ServiceDescriptor
	var derr error
	if ok, msg := noPanic(func() {
		svc, derr = proto.NewDescritorFromContent(context.Background(), pgFileName, text, map[string]string{})
	}); !ok {
		return nil, fmt.Errorf("dynamicgo: panic: %s", msg)
	}
	if derr != nil {
		return nil, fmt.Errorf("dynamicgo: %v", derr)
	}
	mt := svc.LookupMethodByName("M")
	if mt == nil || mt.Input() == nil || mt.Input().Message() == nil {
		return nil, fmt.Errorf("dynamicgo: method M / input missing")
	}
	return mt.Input(), nil
}

// ---- boundary values ---------------------------------------------------------------------------------

func c08Big(s string) *big.Int {
	v, ok := new(big.Int).SetString(s, 10)
	if !ok {
		panic(s)
	}
	return v
}

var c08S32 = []int64{0, 1, -1, math.MinInt32, math.MaxInt32, 127, 128, -128, -129, 16383, 16384, math.MinInt32 + 1, 1 << 30}
var c08S64 = []int64{0, 1, -1, math.MinInt64, math.MaxInt64, 1 << 31, -(1 << 31) - 1, 1 << 32, 1<<53 + 1, -(1<<53 + 1), 1 << 62, math.MinInt64 + 1}
var c08U32 = []uint64{0, 1, 127, 128, 1<<31 - 1, 1 << 31, 1<<31 + 1, 1<<32 - 1, 1<<32 - 2}
var c08U64 = []uint64{0, 1, 1 << 31, 1 << 32, 1<<53 + 1, 1<<63 - 1, 1 << 63, 1<<63 + 1, math.MaxUint64, math.MaxUint64 - 1}

// every boundary image of a numeric kind (bool: 0/1; float/double: bit patterns)
func c08Boundaries(kind int) []*big.Int {
	var out []*big.Int
	switch kind {
	case 5, 15, 17, pgKEnum:
		for _, v := range c08S32 {
			out = append(out, big.NewInt(v))
		}
	case 3, 16, 18:
		for _, v := range c08S64 {
			out = append(out, big.NewInt(v))
		}
	case 13, 7:
		for _, v := range c08U32 {
			out = append(out, new(big.Int).SetUint64(v))
		}
	case 4, 6:
		for _, v := range c08U64 {
			out = append(out, new(big.Int).SetUint64(v))
		}
	case pgKBool:
		out = []*big.Int{big.NewInt(0), big.NewInt(1)}
	case pgKFloat:
		for _, b := range pgFloatBits {
			if b&0x7f800000 == 0x7f800000 && b&0x007fffff != 0 {
				b |= 0x00400000 // the reference quiets signalling NaNs
			}
			out = append(out, new(big.Int).SetUint64(uint64(b)))
		}
		for _, b := range []uint32{0x00000002, 0x807fffff, 0x33800000, 0x7f7ffffe, 0x4effffff, 0x3f7fffff, 0x3f800001, 0x501502f9} {
			out = append(out, new(big.Int).SetUint64(uint64(b)))
		}
	case pgKDouble:
		for _, b := range pgDoubleBits {
			out = append(out, new(big.Int).SetUint64(b))
		}
		for _, b := range []uint64{2, 0x800fffffffffffff, 0x3ca0000000000000, 0x7feffffffffffffe, 0x433fffffffffffff, 0x3fefffffffffffff,
			0x3ff0000000000001, 0x4415af1d78b58c40, 0x3fd5555555555555, 0x0000000000000005, 0x44b52d02c7e14af6} {
			out = append(out, new(big.Int).SetUint64(b))
		}
	}
	return out
}

// lengths of bytes values around the sizes at which an encoder may switch strategy (chunked / streamed base64: 1024,
// 2048, 3072, 4096 and their neighbours modulo 3, a non-round size, 12 KiB + 1)
var c08BytesLens = []int{1023, 1024, 1025, 1026, 1027, 2048, 3072, 4095, 4096, 4097, 5000, 12289}

// replaces a share of the numeric scalars of v (values, elements, map keys and map values) by boundary values
func c08Mutate(r *rng, v *pgVal, share int) {
	switch v.Tag {
	case 1:
		for _, fv := range v.Fields {
			c08Mutate(r, fv.V, share)
		}
	case 2:
		if v.Kind != pgKEnum && r.chance(share) {
			if bs := c08Boundaries(v.Kind); len(bs) > 0 {
				v.I = bs[r.intn(len(bs))]
			}
		} else if v.Kind == pgKDouble && r.chance(85) {
			// keep most random doubles at moderate magnitudes (2^-64 .. 2^64, random sign and mantissa): the exact
			// decimal -> binary64 evaluation in the checker costs time quadratic in the decimal exponent
			b := v.I.Uint64()
			if e := (b >> 52) & 0x7ff; e != 0x7ff && b<<1 != 0 {
				e = uint64(1023 - 64 + r.intn(129))
				b = b&^(uint64(0x7ff)<<52) | e<<52
				v.I = new(big.Int).SetUint64(b)
			}
		}
	case 3:
		// now and then a long bytes value (singular, element or map value; never a key: keys are not bytes)
		if v.Kind == pgKBytes && r.chance(3) {
			v.B = r.bytes(c08BytesLens[r.intn(len(c08BytesLens))])
		}
	case 4:
		for _, e := range v.Elems {
			c08Mutate(r, e, share)
		}
	case 5:
		for _, kv := range v.Entries {
			c08Mutate(r, kv.K, share)
			c08Mutate(r, kv.V, share)
		}
	}
}

// At most *budget doubles of extreme magnitude (outside 2^-128 .. 2^128) stay in one message; the others are moved to a
// moderate magnitude (sign and mantissa kept).  Reason: see c08Mutate (time of the exact evaluation in the checker).
func c08CapExtremes(r *rng, v *pgVal, budget *int) {
	switch v.Tag {
	case 1:
		for _, fv := range v.Fields {
			c08CapExtremes(r, fv.V, budget)
		}
	case 2:
		if v.Kind != pgKDouble {
			return
		}
		b := v.I.Uint64()
		e := (b >> 52) & 0x7ff
		if e == 0x7ff || b<<1 == 0 || (e >= 1023-128 && e <= 1023+128) {
			return
		}
		if *budget > 0 {
			*budget--
			return
		}
		e = uint64(1023 - 64 + r.intn(129))
		v.I = new(big.Int).SetUint64(b&^(uint64(0x7ff)<<52) | e<<52)
	case 4:
		for _, e := range v.Elems {
			c08CapExtremes(r, e, budget)
		}
	case 5:
		for _, kv := range v.Entries {
			c08CapExtremes(r, kv.V, budget)
		}
	}
}

// ---- selector of the loop overrun (same definition as P2JQuirk.overrun): such inputs are converted in a child process,
// because the mis-parse can end in the endless packed-list loop (C06) --------------------------------------------------

func c08LoopsToEnd(v *pgVal, unpacked map[*pgField]bool, f *pgField) bool {
	return v.Tag == 5 || (v.Tag == 4 && (!pgIsNumKind(f.Kind) || unpacked[f]))
}

func c08OverrunMsg(v *pgVal, next int32, unpacked map[*pgField]bool, nested bool) bool {
	// what the reference omits is not on the wire: singular zero scalars / empty strings; keep it simple and conservative
	// by looking at all listed fields (a false positive only costs a child process)
	n := len(v.Fields)
	if nested && n > 0 {
		last := v.Fields[n-1]
		if c08LoopsToEnd(last.V, unpacked, last.F) && last.F.Num == next {
			return true
		}
	}
	for i, fv := range v.Fields {
		nx := next
		if i+1 < n {
			nx = v.Fields[i+1].F.Num
		}
		num := fv.F.Num
		switch fv.V.Tag {
		case 1:
			if c08OverrunMsg(fv.V, nx, unpacked, true) {
				return true
			}
		case 4:
			for j, e := range fv.V.Elems {
				if e.Tag != 1 {
					break
				}
				en := nx
				if j+1 < len(fv.V.Elems) {
					en = num
				}
				if c08OverrunMsg(e, en, unpacked, true) {
					return true
				}
			}
		case 5:
			for j, kv := range fv.V.Entries {
				if kv.V.Tag != 1 {
					break
				}
				en := nx
				if j+1 < len(fv.V.Entries) {
					en = num
				}
				if c08OverrunMsg(kv.V, en, unpacked, true) {
					return true
				}
			}
		}
	}
	return false
}

// ---- running the implementation ------------------------------------------------------------------------

type c08Result struct {
	Err  int    `json:"err"` // 0 nil, 1 error, 2 panic, 3 watchdog
	Out  string `json:"out"` // hex
	Err2 int    `json:"err2"`
	Out2 string `json:"out2"`
}

type c08Job struct {
	Text  string `json:"text"`
	Bytes string `json:"bytes"`
	I64S  bool   `json:"i64s"`
	Dis   bool   `json:"dis"`
	Pre   string `json:"pre"`
}

func c08Convert(desc *proto.TypeDescriptor, b []byte, o conv.Options, pre []byte) (res c08Result, hung bool) {
	done := make(chan c08Result, 1)
	go func() {
		var r c08Result
		var out []byte
		var err error
		ok, _ := noPanic(func() {
			cv := p2j.NewBinaryConv(o)
			out, err = cv.Do(context.Background(), desc, b)
		})
		switch {
		case !ok:
			r.Err = 2
		case err != nil:
			r.Err = 1
		}
		r.Out = hex.EncodeToString(out)
		buf := make([]byte, len(pre), len(pre)+8)
		copy(buf, pre)
		ok, _ = noPanic(func() {
			cv := p2j.NewBinaryConv(o)
			err = cv.DoInto(context.Background(), desc, b, &buf)
		})
		switch {
		case !ok:
			r.Err2 = 2
		case err != nil:
			r.Err2 = 1
		}
		r.Out2 = hex.EncodeToString(buf)
		done <- r
	}()
	select {
	case r := <-done:
		return r, false
	case <-time.After(c08Watchdog):
		return c08Result{Err: 3, Err2: 3}, true
	}
}

// child: one job on stdin, one result on stdout; a conversion that does not answer is abandoned by leaving the process
func c08Child() {
	in, _ := io.ReadAll(os.Stdin)
	var j c08Job
	if err := json.Unmarshal(in, &j); err != nil {
		fmt.Fprintln(os.Stderr, "c08 child: bad job:", err)
		os.Exit(3)
	}
	desc, err := c08DynDesc(j.Text)
	if err != nil {
		fmt.Fprintln(os.Stderr, "c08 child:", err)
		os.Exit(3)
	}
	b, _ := hex.DecodeString(j.Bytes)
	pre, _ := hex.DecodeString(j.Pre)
	res, _ := c08Convert(desc, b, conv.Options{Int642String: j.I64S, DisallowUnknownField: j.Dis}, pre)
	o, _ := json.Marshal(res)
	os.Stdout.Write(o)
	os.Exit(0)
}

func c08ConvertInChild(text string, b []byte, i64s, dis bool, pre []byte) (c08Result, error) {
	job, _ := json.Marshal(c08Job{Text: text, Bytes: hex.EncodeToString(b), I64S: i64s, Dis: dis, Pre: hex.EncodeToString(pre)})
	ctx, cancel := context.WithTimeout(context.Background(), 20*time.Second)
	defer cancel()
	cmd := exec.CommandContext(ctx, os.Args[0])
	cmd.Env = append(os.Environ(), "VERIF_C08_CHILD=1")
	cmd.Stdin = bytes.NewReader(job)
	var so bytes.Buffer
	cmd.Stdout = &so
	if err := cmd.Run(); err != nil {
		if ctx.Err() != nil {
			return c08Result{Err: 3, Err2: 3}, nil
		}
		return c08Result{}, fmt.Errorf("child: %v", err)
	}
	var r c08Result
	if err := json.Unmarshal(so.Bytes(), &r); err != nil {
		return c08Result{}, fmt.Errorf("child output: %v", err)
	}
	return r, nil
}

// ---- unknown fields ---------------------------------------------------------------------------------------

func c08Unknown(r *rng, s *pgSchema) []byte {
	root := s.msg(s.Root)
	var b []byte
	for k := 1 + r.intn(3); k > 0; k-- {
		var num int32
		for {
			num = int32(1 + r.intn(3000))
			if r.chance(30) {
				num = pgNumberPool[r.intn(len(pgNumberPool))] + 1
			}
			if root.byNum(num) == nil && !(num >= 19000 && num <= 19999) {
				break
			}
		}
		switch r.intn(4) {
		case 0:
			b = rw.AppendTag(b, rw.Number(num), rw.VarintType)
			b = rw.AppendVarint(b, r.u64())
		case 1:
			b = rw.AppendTag(b, rw.Number(num), rw.Fixed64Type)
			b = rw.AppendFixed64(b, r.next())
		case 2:
			b = rw.AppendTag(b, rw.Number(num), rw.BytesType)
			b = rw.AppendBytes(b, r.bytes(r.intn(6)))
		default:
			b = rw.AppendTag(b, rw.Number(num), rw.Fixed32Type)
			b = rw.AppendFixed32(b, uint32(r.next()))
		}
	}
	return b
}

// A copy of s with 1..3 fields deleted (the messages and the remaining *pgField are shared with s).  A deleted field's
// records are unknown fields for the converter, at whatever depth its message occurs.  Numbers that some repeated / map
// field of the schema uses are never deleted: an unknown record with such a number right after a nested message is
// swallowed by the loop overrun (finding 805), which the checker's selector only sees for declared fields.
func c08Reduce(r *rng, s *pgSchema) *pgSchema {
	loopNums := map[int32]bool{}
	for _, m := range s.Msgs {
		for _, f := range m.Fields {
			if f.Label != pgSingular {
				loopNums[f.Num] = true
			}
		}
	}
	type cand struct {
		m *pgMsg
		f *pgField
	}
	var cands []cand
	for _, m := range s.Msgs {
		for _, f := range m.Fields {
			if !loopNums[f.Num] {
				cands = append(cands, cand{m, f})
			}
		}
	}
	if len(cands) == 0 {
		return nil
	}
	drop := map[*pgField]bool{}
	for k := 1 + r.intn(3); k > 0; k-- {
		drop[cands[r.intn(len(cands))].f] = true
	}
	red := &pgSchema{Pkg: s.Pkg, Enums: s.Enums, Root: s.Root, Opts: s.Opts}
	for _, m := range s.Msgs {
		nm := &pgMsg{Name: m.Name}
		for _, f := range m.Fields {
			if !drop[f] {
				nm.Fields = append(nm.Fields, f)
			}
		}
		red.Msgs = append(red.Msgs, nm)
	}
	return red
}

// ---- generator --------------------------------------------------------------------------------------------

type c08Stats struct {
	schemas, compileErr, encodeErr, cases, child, hung, unknown, nonfinite, i64s, dis, unpackedFields, sweep, reduced, reducedSchemas int
	bytes                                                                                                int
}

func c08HasNonFinite(v *pgVal) bool {
	switch v.Tag {
	case 1:
		for _, fv := range v.Fields {
			if c08HasNonFinite(fv.V) {
				return true
			}
		}
	case 2:
		if v.Kind == pgKFloat {
			return uint32(v.I.Uint64())&0x7f800000 == 0x7f800000
		}
		if v.Kind == pgKDouble {
			return v.I.Uint64()&0x7ff0000000000000 == 0x7ff0000000000000
		}
	case 4:
		for _, e := range v.Elems {
			if c08HasNonFinite(e) {
				return true
			}
		}
	case 5:
		for _, kv := range v.Entries {
			if c08HasNonFinite(kv.V) {
				return true
			}
		}
	}
	return false
}

// what one conversion needs: the full schema (reference encoder), and the schema the CONVERTER is given - the same one,
// or a reduced one (some fields deleted from the .proto text), which makes the deleted fields unknown fields at every
// nesting level
type c08Target struct {
	enc      *pgCompiled           // full schema: value generation and reference encoding
	dyn      *proto.TypeDescriptor // dynamicgo descriptor p2j converts with
	text     string                // .proto text of dyn (for the child process)
	sf       []string              // case fields of the schema of dyn
	unpacked map[*pgField]bool
	reduced  bool
}

func c08One(r *rng, st *c08Stats, t *c08Target, v *pgVal, unknown []byte, i64s, dis bool) {
	c, schemaFields, unpacked := t.enc, t.sf, t.unpacked
	if t.reduced {
		st.reduced++
	}
	b, err := c.encodeRef(v, c.S.Root)
	if err != nil {
		st.encodeErr++
		return
	}
	b = append(b, unknown...)
	pre := []byte{}
	switch r.intn(3) {
	case 1:
		pre = []byte("[0,")
	case 2:
		pre = r.bytes(1 + r.intn(40))
	}
	o := conv.Options{Int642String: i64s, DisallowUnknownField: dis}
	var res c08Result
	if c08OverrunMsg(v, 0, unpacked, false) {
		st.child++
		res, err = c08ConvertInChild(t.text, b, i64s, dis, pre)
		if err != nil {
			die("C08: %v", err)
		}
	} else {
		var hung bool
		res, hung = c08Convert(t.dyn, b, o, pre)
		if hung {
			// the conversion goroutine cannot be stopped: report the case and leave
			st.hung++
			fields := append(append([]string{}, schemaFields...), fb(i64s), fb(dis), fx(b), fi(3), fx(nil), fi(3), fx(nil), fx(pre))
			out.emit(801, fields...)
			out.w.Flush()
			fmt.Fprintf(os.Stderr, "C08: conversion did not answer within %v; case written, stopping\n", c08Watchdog)
			os.Exit(0)
		}
	}
	if res.Err == 3 {
		st.hung++
	}
	ob, _ := hex.DecodeString(res.Out)
	ob2, _ := hex.DecodeString(res.Out2)
	fields := append(append([]string{}, schemaFields...), fb(i64s), fb(dis), fx(b), fi(res.Err), fx(ob), fi(res.Err2), fx(ob2), fx(pre))
	out.emit(801, fields...)
	if c08Extra != nil {
		c08Extra(fields) // further checks on the same case (c08_bytes.go: 802)
	}
	st.cases++
	st.bytes += len(b)
	if len(unknown) > 0 {
		st.unknown++
	}
	if c08HasNonFinite(v) {
		st.nonfinite++
	}
	if i64s {
		st.i64s++
	}
	if dis {
		st.dis++
	}
}

// the sweep schema: every numeric kind as singular / packed / unpacked / map value, every key kind as map key
func c08SweepSchema() (*pgSchema, map[*pgField]bool) {
	s := &pgSchema{Pkg: "pg.sweep", Root: "M0", Opts: pgOpts{}.withDefaults()}
	s.Enums = []*pgEnum{{Name: "E0", Values: []int32{0, 1, -1, math.MaxInt32, math.MinInt32}}}
	m := &pgMsg{Name: "M0"}
	unpacked := map[*pgField]bool{}
	num := int32(1)
	add := func(label, kind, keyKind int, unp bool) *pgField {
		f := &pgField{Num: num, Label: label, Kind: kind, KeyKind: keyKind}
		if kind == pgKEnum {
			f.EnumName = "E0"
		}
		shape := pgKindNames[kind]
		switch label {
		case pgRepeated:
			shape = "rep_" + shape
			if unp {
				shape = "unp_" + pgKindNames[kind]
			}
		case pgMap:
			shape = "map_" + pgKindNames[keyKind] + "_" + shape
		}
		f.Name = fmt.Sprintf("f%d_%s", num, shape)
		if unp {
			unpacked[f] = true
		}
		num++
		if num == 15 {
			num = 2047 // two-byte and three-byte tags as well
		}
		m.Fields = append(m.Fields, f)
		return f
	}
	for _, k := range pgAllKinds {
		if k == pgKMessage || pgIsBytesKind(k) {
			continue
		}
		add(pgSingular, k, 0, false)
		add(pgRepeated, k, 0, false)
		add(pgRepeated, k, 0, true)
		add(pgMap, k, 5, false) // map<int32, k>
	}
	for _, kk := range pgMapKeyKinds {
		if kk != pgKString {
			add(pgMap, 5, kk, false) // map<kk, int32>
		}
	}
	add(pgMap, pgKString, pgKString, false)
	add(pgSingular, pgKString, 0, false)
	add(pgSingular, pgKBytes, 0, false)
	add(pgRepeated, pgKString, 0, false)
	add(pgRepeated, pgKBytes, 0, false)
	add(pgMap, pgKBytes, 5, false) // map<int32, bytes>
	s.Msgs = []*pgMsg{m}
	return s, unpacked
}

func genC08Sweep(r *rng, st *c08Stats, budget int) {
	s, unpacked := c08SweepSchema()
	c, err := c08Compile(s, c08Text(s, unpacked))
	if err != nil {
		die("C08 sweep schema: %v\n%s", err, c08Text(s, unpacked))
	}
	sf := c08SchemaFields(s, unpacked)
	m := s.msg("M0")
	type job struct{ v *pgVal }
	var jobs []*pgVal
	one := func(f *pgField, fv *pgVal) {
		jobs = append(jobs, &pgVal{Tag: 1, Kind: pgKMessage, Fields: []pgFV{{F: f, V: fv}}})
	}
	for _, f := range m.Fields {
		switch {
		case f.Label == pgSingular && pgIsNumKind(f.Kind):
			for _, b := range c08Boundaries(f.Kind) {
				one(f, pgNum(f.Kind, b))
			}
		case f.Label == pgRepeated && pgIsNumKind(f.Kind):
			bs := c08Boundaries(f.Kind)
			// all boundaries in one list, and each boundary alone / first / last
			l := &pgVal{Tag: 4, Kind: f.Kind, Packed: !unpacked[f]}
			for _, b := range bs {
				l.Elems = append(l.Elems, pgNum(f.Kind, b))
			}
			one(f, l)
			for i, b := range bs {
				l := &pgVal{Tag: 4, Kind: f.Kind, Packed: !unpacked[f]}
				switch i % 3 {
				case 0:
					l.Elems = []*pgVal{pgNum(f.Kind, b)}
				case 1:
					l.Elems = []*pgVal{pgNum(f.Kind, b), pgNum(f.Kind, big.NewInt(1))}
				default:
					l.Elems = []*pgVal{pgNum(f.Kind, big.NewInt(1)), pgNum(f.Kind, b)}
				}
				one(f, l)
			}
		case f.Label == pgMap && f.KeyKind == 5 && pgIsNumKind(f.Kind) && !strings.Contains(f.Name, "map_int32_int32"):
			for i, b := range c08Boundaries(f.Kind) {
				mv := &pgVal{Tag: 5, Kind: f.Kind, KeyKind: 5}
				mv.Entries = []pgKV{{K: pgNum(5, big.NewInt(int64(i-2))), V: pgNum(f.Kind, b)}}
				one(f, mv)
			}
		case f.Label == pgMap && f.Kind == 5 && f.KeyKind != pgKString:
			bs := c08Boundaries(f.KeyKind)
			for _, b := range bs {
				mv := &pgVal{Tag: 5, Kind: 5, KeyKind: f.KeyKind}
				mv.Entries = []pgKV{{K: pgNum(f.KeyKind, b), V: pgNum(5, big.NewInt(7))}}
				one(f, mv)
			}
			mv := &pgVal{Tag: 5, Kind: 5, KeyKind: f.KeyKind}
			for i, b := range bs {
				mv.Entries = append(mv.Entries, pgKV{K: pgNum(f.KeyKind, b), V: pgNum(5, big.NewInt(int64(i)))})
			}
			pgSortEntries(mv.Entries)
			one(f, mv)
		}
	}
	// bytes values of every length class as singular field, repeated element (first / middle / last) and map value
	for _, f := range m.Fields {
		if f.Kind != pgKBytes {
			continue
		}
		for i, n := range c08BytesLens {
			long := pgStr(pgKBytes, r.bytes(n))
			small := func() *pgVal { return pgStr(pgKBytes, r.bytes(1+r.intn(5))) }
			switch f.Label {
			case pgSingular:
				one(f, long)
			case pgRepeated:
				l := &pgVal{Tag: 4, Kind: pgKBytes}
				switch i % 3 {
				case 0:
					l.Elems = []*pgVal{long, small()}
				case 1:
					l.Elems = []*pgVal{small(), long, small()}
				default:
					l.Elems = []*pgVal{small(), long}
				}
				one(f, l)
			case pgMap:
				mv := &pgVal{Tag: 5, Kind: pgKBytes, KeyKind: f.KeyKind}
				mv.Entries = []pgKV{{K: pgNum(f.KeyKind, big.NewInt(int64(i))), V: long}}
				one(f, mv)
			}
		}
	}
	// the empty message and a message with everything empty-able empty
	jobs = append(jobs, &pgVal{Tag: 1, Kind: pgKMessage})
	for i, v := range jobs {
		if st.cases >= budget {
			break
		}
		i64s := i%2 == 1
		c08One(r, st, &c08Target{enc: c, dyn: c.Dyn, text: c.Text, sf: sf, unpacked: unpacked}, v, nil, i64s, false)
		st.sweep++
	}
}

func genC08(r *rng, n int) {
	st := &c08Stats{}
	// the systematic sweep (about 830 cases) takes at most half of the budget
	genC08Sweep(r.fork(), st, n/2)
	optsPool := []pgOpts{{MaxMsgs: 4, MaxFields: 8, MaxDepth: 3}, {MaxMsgs: 3, MaxFields: 6, MaxDepth: 4}, {MaxMsgs: 5, MaxFields: 10, MaxDepth: 2}, {MaxMsgs: 2, MaxFields: 5, MaxDepth: 5}}
	for st.cases < n {
		s := genProtoSchema(r.fork(), optsPool[r.intn(len(optsPool))])
		unpacked := map[*pgField]bool{}
		for _, m := range s.Msgs {
			for _, f := range m.Fields {
				if f.Label == pgRepeated && pgIsNumKind(f.Kind) && r.chance(25) {
					unpacked[f] = true
					st.unpackedFields++
				}
			}
		}
		c, err := c08Compile(s, c08Text(s, unpacked))
		if err != nil {
			st.compileErr++
			if st.compileErr > 50 {
				die("C08: schemas do not compile: %v", err)
			}
			continue
		}
		st.schemas++
		tgt := &c08Target{enc: c, dyn: c.Dyn, text: c.Text, sf: c08SchemaFields(s, unpacked), unpacked: unpacked}
		if r.chance(30) {
			if red := c08Reduce(r, s); red != nil {
				text := c08Text(red, unpacked)
				if dyn, err := c08DynDesc(text); err == nil {
					tgt.dyn, tgt.text, tgt.sf, tgt.reduced = dyn, text, c08SchemaFields(red, unpacked), true
					st.reducedSchemas++
				}
			}
		}
		per := 4 + r.intn(8)
		for i := 0; i < per && st.cases < n; i++ {
			v := genProtoValue(r.fork(), c, s.Root, 0)
			c08Mutate(r, v, []int{0, 15, 40, 80}[r.intn(4)])
			extremes := r.intn(3)
			c08CapExtremes(r, v, &extremes)
			var unknown []byte
			if r.chance(25) {
				unknown = c08Unknown(r, s)
			}
			i64s := r.chance(40)
			dis := r.chance(30)
			c08One(r, st, tgt, v, unknown, i64s, dis)
		}
	}
	fmt.Fprintf(os.Stderr, "C08: reducedSchemas=%d reducedCases=%d\n", st.reducedSchemas, st.reduced)
	fmt.Fprintf(os.Stderr, "C08: cases=%d sweep=%d schemas=%d compileErr=%d encodeErr=%d child=%d hung=%d unknown=%d nonfinite=%d int642string=%d disallow=%d unpackedFields=%d avgBytes=%d\n",
		st.cases, st.sweep, st.schemas, st.compileErr, st.encodeErr, st.child, st.hung, st.unknown, st.nonfinite, st.i64s, st.dis, st.unpackedFields, st.bytes/(st.cases+1))
}
