//go:build verif

// Shared random proto3 schema + message generator (used by the proto property checkers C06..C10, C15, C19).
//
//	genProtoSchema   random schema (top-level messages M0.., enums E0.., every field name globally unique)
//	compileProtoSchema   parses the printed .proto with dynamicgo AND with jhump/protoreflect (the reference)
//	genProtoValue    random abstract value tree (pgVal) in CANONICAL form (what the reference reports after a round trip)
//	encodeRef / dumpRef   reference encoder (dynamic.Message, deterministic) and reference decoder -> canonical pgVal
//	caseFields       serialisation of schema / value into case fields for the Gallina checkers
//
// Every random choice comes from the *rng; no output depends on Go map iteration order.
package main

import (
	"bytes"
	"context"
	"fmt"
	"math"
	"math/big"
	"sort"
	"strings"

	"github.com/cloudwego/dynamicgo/proto"
	"github.com/jhump/protoreflect/desc"
	"github.com/jhump/protoreflect/desc/protoparse"
	"github.com/jhump/protoreflect/dynamic"
	pw "google.golang.org/protobuf/encoding/protowire"
)

// ---- schema ---------------------------------------------------------------------------------

// kinds are protoreflect.Kind numbers: 1 double,2 float,3 int64,4 uint64,5 int32,6 fixed64,7 fixed32,8 bool,9 string,
// 11 message,12 bytes,13 uint32,14 enum,15 sfixed32,16 sfixed64,17 sint32,18 sint64
type pgField struct {
	Num      int32
	Name     string
	JSONName string // filled by compileProtoSchema from the reference descriptor
	Label    int    // 0 singular, 1 repeated, 3 map
	Kind     int    // for maps: the VALUE kind
	KeyKind  int    // map key kind, else 0
	MsgName  string // message type name when Kind==11
	EnumName string // enum type name when Kind==14
	Unpacked bool   // repeated numeric field declared [packed = false] (set by harness/c20_any.go only; case label 2)
}

type pgMsg struct {
	Name   string
	Fields []*pgField // declaration order
}

type pgEnum struct {
	Name   string
	Values []int32 // Values[0] == 0 (proto3); value i is named <Name>_V<i>
}

type pgSchema struct {
	Pkg   string
	Msgs  []*pgMsg
	Enums []*pgEnum
	Root  string
	Opts  pgOpts // the (defaulted) options the schema was generated with; MaxDepth is used by genProtoValue
	Chain *pgField // Opts.SelfChain: the field of the root message whose type is the root message itself
}

type pgOpts struct {
	MaxMsgs, MaxFields, MaxDepth int
	BigNumbers                   bool // allow field number 2^20 (at most once per schema)
	StringKeyPct                 int  // > 0: that share of the maps is string-keyed (0: uniform over the 12 key kinds, no extra draw)
	SelfChain                    bool // the root message gets one more field of its own type (singular, repeated or map valued): values of any depth
}

const (
	pgSingular = 0
	pgRepeated = 1
	pgMap      = 3

	pgKMessage = 11
	pgKString  = 9
	pgKBytes   = 12
	pgKEnum    = 14
	pgKBool    = 8
	pgKFloat   = 2
	pgKDouble  = 1

	pgBigNumber = 1 << 20
)

var pgKindNames = map[int]string{1: "double", 2: "float", 3: "int64", 4: "uint64", 5: "int32", 6: "fixed64", 7: "fixed32", 8: "bool",
	9: "string", 11: "message", 12: "bytes", 13: "uint32", 14: "enum", 15: "sfixed32", 16: "sfixed64", 17: "sint32", 18: "sint64"}

// the 15 scalar kinds (incl. string and bytes)
var pgScalarKinds = []int{1, 2, 3, 4, 5, 6, 7, 8, 9, 12, 13, 15, 16, 17, 18}

// every legal map key kind
var pgMapKeyKinds = []int{5, 3, 13, 4, 17, 18, 7, 6, 15, 16, 8, 9}

var pgAllKinds = []int{1, 2, 3, 4, 5, 6, 7, 8, 9, 11, 12, 13, 14, 15, 16, 17, 18}

func pgIsBytesKind(k int) bool { return k == pgKString || k == pgKBytes }

// numeric scalar / bool / enum (the kinds that are packed in proto3 and carried as an integer image)
func pgIsNumKind(k int) bool {
	return k != pgKString && k != pgKBytes && k != pgKMessage && k >= 1 && k <= 18 && k != 10
}

func pgIsSignedKind(k int) bool {
	switch k {
	case 3, 5, 14, 15, 16, 17, 18:
		return true
	}
	return false
}

func pgIs32Kind(k int) bool {
	switch k {
	case 2, 5, 7, 13, 14, 15, 17:
		return true
	}
	return false
}

// wire type of one element of that kind: 0 varint, 1 fixed64, 2 bytes, 5 fixed32
func pgWireType(k int) int {
	switch k {
	case 1, 6, 16:
		return 1
	case 2, 7, 15:
		return 5
	case 9, 11, 12:
		return 2
	}
	return 0
}

func (s *pgSchema) msg(name string) *pgMsg {
	for _, m := range s.Msgs {
		if m.Name == name {
			return m
		}
	}
	return nil
}

func (s *pgSchema) enum(name string) *pgEnum {
	for _, e := range s.Enums {
		if e.Name == name {
			return e
		}
	}
	return nil
}

func (m *pgMsg) byNum(n int32) *pgField {
	for _, f := range m.Fields {
		if f.Num == n {
			return f
		}
	}
	return nil
}

// fields ascending by number (copy)
func (m *pgMsg) sorted() []*pgField {
	fs := append([]*pgField(nil), m.Fields...)
	sort.SliceStable(fs, func(i, j int) bool { return fs[i].Num < fs[j].Num })
	return fs
}

func (o pgOpts) withDefaults() pgOpts {
	if o.MaxMsgs <= 0 {
		o.MaxMsgs = 5
	}
	if o.MaxFields <= 0 {
		o.MaxFields = 8
	}
	if o.MaxDepth <= 0 {
		o.MaxDepth = 4
	}
	return o
}

var pgNumberPool = []int32{1, 15, 16, 2047, 2048}

func genProtoSchema(r *rng, o pgOpts) *pgSchema {
	o = o.withDefaults()
	s := &pgSchema{Pkg: "pg.gen", Opts: o}
	nm := 1 + r.intn(o.MaxMsgs)
	for i := 0; i < nm; i++ {
		s.Msgs = append(s.Msgs, &pgMsg{Name: fmt.Sprintf("M%d", i)})
	}
	s.Root = "M0"
	ne := 0
	switch x := r.intn(10); {
	case x < 2:
		ne = 0
	case x < 6:
		ne = 1
	default:
		ne = 2
	}
	enumPool := []int32{1, 2, 3, 127, 128, -1, -2, 300, 16384, math.MaxInt32, math.MinInt32}
	for i := 0; i < ne; i++ {
		e := &pgEnum{Name: fmt.Sprintf("E%d", i), Values: []int32{0}}
		seen := map[int32]bool{0: true}
		for k := r.intn(5); k > 0; k-- {
			var v int32
			if r.chance(70) {
				v = enumPool[r.intn(len(enumPool))]
			} else {
				v = int32(r.u64())
			}
			if !seen[v] {
				seen[v] = true
				e.Values = append(e.Values, v)
			}
		}
		s.Enums = append(s.Enums, e)
	}

	bigUsed := false
	pickKind := func() int {
		x := r.intn(20)
		switch {
		case x < 15:
			return pgScalarKinds[x]
		case x < 17:
			if ne > 0 {
				return pgKEnum
			}
			return pgScalarKinds[r.intn(len(pgScalarKinds))]
		default:
			return pgKMessage
		}
	}
	setKind := func(f *pgField, k int) {
		f.Kind, f.MsgName, f.EnumName = k, "", ""
		if k == pgKMessage {
			f.MsgName = s.Msgs[r.intn(nm)].Name // any message, including the enclosing one
		}
		if k == pgKEnum {
			f.EnumName = s.Enums[r.intn(ne)].Name
		}
	}
	// appends a field with a fresh number and a random label to m (kind still unset)
	newField := func(m *pgMsg) *pgField {
		f := &pgField{}
		for {
			switch x := r.intn(100); {
			case x < 30:
				f.Num = pgNumberPool[r.intn(len(pgNumberPool))]
			case x < 70:
				f.Num = int32(1 + r.intn(40))
			case x < 95 || !o.BigNumbers || bigUsed:
				f.Num = int32(1 + r.intn(5000))
			default:
				f.Num = pgBigNumber
			}
			if m.byNum(f.Num) == nil && !(f.Num >= 19000 && f.Num <= 19999) {
				break
			}
		}
		if f.Num == pgBigNumber {
			bigUsed = true
		}
		switch x := r.intn(100); {
		case x < 50:
			f.Label = pgSingular
		case x < 80:
			f.Label = pgRepeated
		default:
			f.Label = pgMap
			f.KeyKind = pgMapKeyKinds[r.intn(len(pgMapKeyKinds))]
			if o.StringKeyPct > 0 && r.chance(o.StringKeyPct) {
				f.KeyKind = pgKString
			}
		}
		m.Fields = append(m.Fields, f)
		return f
	}
	for _, m := range s.Msgs {
		nf := r.intn(o.MaxFields + 1)
		if nf == 0 && !r.chance(30) {
			nf = 1 + r.intn(o.MaxFields)
		}
		for i := 0; i < nf; i++ {
			setKind(newField(m), pickKind())
		}
	}

	// make children reuse the field number of the parent field that refers to them, with a length-delimited
	// wire type at the same number (a decoder that confuses nesting levels then mis-parses instead of skipping)
	locked := map[*pgField]bool{}
	pinned := map[*pgMsg]bool{}
	for _, p := range s.Msgs {
		for _, f := range p.Fields {
			if f.Kind != pgKMessage || f.Num == pgBigNumber || !r.chance(60) {
				continue
			}
			c := s.msg(f.MsgName)
			if c == p || pinned[c] || len(c.Fields) == 0 || c.byNum(f.Num) != nil || locked[c.Fields[0]] || c.Fields[0] == f {
				continue
			}
			cf := c.Fields[0]
			if cf.Num == pgBigNumber {
				continue
			}
			cf.Num = f.Num
			if cf.Label == pgSingular && pgWireType(cf.Kind) != 2 {
				switch r.intn(4) {
				case 0:
					setKind(cf, pgKString)
				case 1:
					setKind(cf, pgKBytes)
				case 2:
					setKind(cf, pgKMessage)
				default:
					cf.Label = pgRepeated // packed: length-delimited on the wire
				}
			}
			pinned[c] = true
			locked[f] = true
			locked[cf] = true
		}
	}

	// most messages should be reachable from the root (dynamicgo only compiles what the rpc input reaches): hang
	// unreachable ones below a reachable message, as a new field or by retyping an unlocked one
	reach := map[string]bool{}
	var mark func(n string)
	mark = func(n string) {
		if reach[n] {
			return
		}
		reach[n] = true
		for _, f := range s.msg(n).Fields {
			if f.Kind == pgKMessage {
				mark(f.MsgName)
			}
		}
	}
	mark(s.Root)
	for _, u := range s.Msgs {
		if reach[u.Name] || !r.chance(85) {
			continue
		}
		var hosts []*pgMsg
		for _, m := range s.Msgs {
			if reach[m.Name] {
				hosts = append(hosts, m)
			}
		}
		host := hosts[r.intn(len(hosts))]
		var f *pgField
		if len(host.Fields) < o.MaxFields {
			f = newField(host)
		} else {
			f = host.Fields[r.intn(len(host.Fields))]
			if locked[f] {
				continue
			}
		}
		f.Kind, f.MsgName, f.EnumName = pgKMessage, u.Name, ""
		mark(u.Name)
	}

	// a directly recursive field of the root message (label drawn as for any field; map keys of a kind the generic
	// readers support), so that values of arbitrary nesting depth exist for this schema
	if o.SelfChain {
		root := s.msg(s.Root)
		f := newField(root)
		f.Kind, f.MsgName, f.EnumName = pgKMessage, root.Name, ""
		if f.Label == pgMap {
			f.KeyKind = []int{5, 3, 13, 4, 17, 18, pgKString}[r.intn(7)]
		}
		s.Chain = f
	}

	// declaration order: ascending, descending or as drawn (random)
	for _, m := range s.Msgs {
		fs := m.Fields
		switch x := r.intn(10); {
		case x < 3:
			sort.SliceStable(fs, func(i, j int) bool { return fs[i].Num < fs[j].Num })
		case x < 5:
			sort.SliceStable(fs, func(i, j int) bool { return fs[i].Num > fs[j].Num })
		}
	}

	// globally unique names: m<msg>f<i>_<shape> (dynamicgo names map-entry/list types after the field and memoises by
	// simple name; the letter separators keep the CamelCase'd map entry names distinct as well)
	for mi, m := range s.Msgs {
		for i, f := range m.Fields {
			shape := pgKindNames[f.Kind]
			switch f.Label {
			case pgRepeated:
				shape = "rep_" + shape
			case pgMap:
				shape = "map_" + pgKindNames[f.KeyKind] + "_" + shape
			}
			f.Name = fmt.Sprintf("m%df%d_%s", mi, i, shape)
		}
	}
	return s
}

func (f *pgField) typeText() string {
	elem := pgKindNames[f.Kind]
	if f.Kind == pgKMessage {
		elem = f.MsgName
	}
	if f.Kind == pgKEnum {
		elem = f.EnumName
	}
	switch f.Label {
	case pgRepeated:
		return "repeated " + elem
	case pgMap:
		return "map<" + pgKindNames[f.KeyKind] + ", " + elem + ">"
	}
	return elem
}

func (s *pgSchema) protoText() string {
	var b strings.Builder
	b.WriteString("syntax = \"proto3\";\n")
	fmt.Fprintf(&b, "package %s;\n", s.Pkg)
	for _, e := range s.Enums {
		fmt.Fprintf(&b, "enum %s {\n", e.Name)
		for i, v := range e.Values {
			fmt.Fprintf(&b, "  %s_V%d = %d;\n", e.Name, i, v)
		}
		b.WriteString("}\n")
	}
	for _, m := range s.Msgs {
		fmt.Fprintf(&b, "message %s {\n", m.Name)
		for _, f := range m.Fields {
			if f.Unpacked {
				fmt.Fprintf(&b, "  %s %s = %d [packed = false];\n", f.typeText(), f.Name, f.Num)
				continue
			}
			fmt.Fprintf(&b, "  %s %s = %d;\n", f.typeText(), f.Name, f.Num)
		}
		b.WriteString("}\n")
	}
	fmt.Fprintf(&b, "service PgSvc { rpc M(%s) returns (%s); }\n", s.Root, s.Root)
	return b.String()
}

// fs(Root) fi(#msgs) then per message fs(Name) fi(#fields) then per field:
// fi(Num) fs(Name) fs(JSONName) fi(Label) fi(Kind) fi(KeyKind) fs(MsgName)
func (s *pgSchema) caseFields() []string {
	out := []string{fs(s.Root), fi(len(s.Msgs))}
	for _, m := range s.Msgs {
		out = append(out, fs(m.Name), fi(len(m.Fields)))
		for _, f := range m.Fields {
			label := f.Label
			if f.Unpacked {
				label = 2
			}
			out = append(out, fi(int(f.Num)), fs(f.Name), fs(f.JSONName), fi(label), fi(f.Kind), fi(f.KeyKind), fs(f.MsgName))
		}
	}
	return out
}

// true iff some message can (transitively) contain itself
func (s *pgSchema) recursive() bool {
	state := map[string]int{}
	var visit func(n string) bool
	visit = func(n string) bool {
		switch state[n] {
		case 1:
			return true
		case 2:
			return false
		}
		state[n] = 1
		for _, f := range s.msg(n).Fields {
			if f.Kind == pgKMessage && visit(f.MsgName) {
				return true
			}
		}
		state[n] = 2
		return false
	}
	for _, m := range s.Msgs {
		if visit(m.Name) {
			return true
		}
	}
	return false
}

// ---- compilation ----------------------------------------------------------------------------

type pgCompiled struct {
	S       *pgSchema
	Text    string
	Dyn     *proto.TypeDescriptor // dynamicgo descriptor of Root: Svc.LookupMethodByName("M").Input()
	Svc     *proto.ServiceDescriptor
	RefFile *desc.FileDescriptor
	RefMsgs map[string]*desc.MessageDescriptor // reference descriptors of the top-level messages by simple name
	DynMsgs map[string]*proto.TypeDescriptor   // dynamicgo descriptors of the messages REACHABLE from Root by simple name
}

const pgFileName = "pg.proto"

func compileProtoSchema(s *pgSchema) (*pgCompiled, error) {
	c := &pgCompiled{S: s, Text: s.protoText(), RefMsgs: map[string]*desc.MessageDescriptor{}, DynMsgs: map[string]*proto.TypeDescriptor{}}
	p := protoparse.Parser{Accessor: protoparse.FileContentsFromMap(map[string]string{pgFileName: c.Text})}
	fds, err := p.ParseFiles(pgFileName)
	if err != nil {
		return nil, fmt.Errorf("protoparse: %v", err)
	}
	c.RefFile = fds[0]
	for _, md := range c.RefFile.GetMessageTypes() {
		c.RefMsgs[md.GetName()] = md
	}
	for _, m := range s.Msgs {
		md := c.RefMsgs[m.Name]
		if md == nil {
			return nil, fmt.Errorf("protoparse: message %s missing", m.Name)
		}
		for _, f := range m.Fields {
			fd := md.FindFieldByNumber(f.Num)
			if fd == nil || fd.GetName() != f.Name {
				return nil, fmt.Errorf("protoparse: field %s.%s (%d) missing", m.Name, f.Name, f.Num)
			}
			f.JSONName = fd.GetJSONName()
		}
	}
	var svc *proto.ServiceDescriptor
	var derr error
	if ok, msg := noPanic(func() {
		svc, derr = proto.NewDescritorFromContent(context.Background(), pgFileName, c.Text, map[string]string{})
	}); !ok {
		return nil, fmt.Errorf("dynamicgo: panic: %s", msg)
	}
	if derr != nil {
		return nil, fmt.Errorf("dynamicgo: %v", derr)
	}
	c.Svc = svc
	mt := svc.LookupMethodByName("M")
	if mt == nil || mt.Input() == nil || mt.Input().Message() == nil {
		return nil, fmt.Errorf("dynamicgo: method M / input missing")
	}
	c.Dyn = mt.Input()
	// collect the dynamicgo descriptors reachable from the root (schema driven walk; disagreements are reported by
	// the self test, not here)
	var walk func(name string, t *proto.TypeDescriptor)
	walk = func(name string, t *proto.TypeDescriptor) {
		if t == nil || t.Message() == nil || c.DynMsgs[name] != nil {
			return
		}
		c.DynMsgs[name] = t
		for _, f := range s.msg(name).Fields {
			if f.Kind != pgKMessage {
				continue
			}
			fd := t.Message().ByNumber(proto.FieldNumber(f.Num))
			if fd == nil || fd.Type() == nil {
				continue
			}
			ft := fd.Type()
			if f.Label != pgSingular {
				ft = ft.Elem()
			}
			walk(f.MsgName, ft)
		}
	}
	walk(s.Root, c.Dyn)
	return c, nil
}

// ---- abstract value tree --------------------------------------------------------------------

type pgVal struct {
	Tag     int      // 1 message, 2 numeric scalar (incl. bool 0/1, enum, float/double as IEEE bits), 3 string/bytes, 4 list, 5 map
	Kind    int      // Tag 2/3: kind; Tag 4: element kind; Tag 5: value kind; Tag 1: 11
	KeyKind int      // Tag 5: key kind
	I       *big.Int // Tag 2: signed kinds (int32,int64,sint*,sfixed*,enum) as signed value, unsigned kinds as unsigned, float as uint32 bits, double as uint64 bits, bool 0/1
	B       []byte   // Tag 3
	Fields  []pgFV   // Tag 1: present fields ascending by Num
	Elems   []*pgVal // Tag 4
	Entries []pgKV   // Tag 5: sorted by key (ints numerically, bool false<true, strings bytewise)
	Packed  bool     // Tag 4: true iff the element kind is a numeric scalar/bool/enum (proto3 default packing)
}

type pgFV struct {
	F *pgField
	V *pgVal
}

type pgKV struct {
	K *pgVal
	V *pgVal
}

func pgNum(kind int, i *big.Int) *pgVal { return &pgVal{Tag: 2, Kind: kind, I: i} }
func pgStr(kind int, b []byte) *pgVal {
	if b == nil {
		b = []byte{}
	}
	return &pgVal{Tag: 3, Kind: kind, B: b}
}

// integer image of the low bits of u for that kind
func pgImage(kind int, u uint64) *big.Int {
	switch kind {
	case pgKBool:
		return big.NewInt(int64(u & 1))
	case 5, 14, 15, 17:
		return big.NewInt(int64(int32(u)))
	case 2, 7, 13:
		return new(big.Int).SetUint64(uint64(uint32(u)))
	case 3, 16, 18:
		return big.NewInt(int64(u))
	}
	return new(big.Int).SetUint64(u) // 1, 4, 6
}

func pgKeyLess(a, b *pgVal) bool {
	if a.Tag == 3 {
		return bytes.Compare(a.B, b.B) < 0
	}
	return a.I.Cmp(b.I) < 0
}

func pgSortEntries(es []pgKV) {
	sort.SliceStable(es, func(i, j int) bool { return pgKeyLess(es[i].K, es[j].K) })
}

var pgFloatBits = []uint32{0, 0x80000000, 0x7f800000, 0xff800000, 0x7fc00000, 0xffc00000, 0x7fc00001, 0x7fffffff, 1, 0x007fffff,
	0x00800000, 0x7f7fffff, 0xff7fffff, 0x3f800000, 0xbf800000, 0x3dcccccd, 0x4b800000, 0x4f000000, 0x5f000000}
var pgDoubleBits = []uint64{0, 0x8000000000000000, 0x7ff0000000000000, 0xfff0000000000000, 0x7ff8000000000000, 0xfff8000000000000,
	0x7ff8000000000001, 0x7ff0000000000001, 0x7fffffffffffffff, 1, 0x000fffffffffffff, 0x0010000000000000, 0x7fefffffffffffff,
	0xffefffffffffffff, 0x3ff0000000000000, 0xbff0000000000000, 0x3fb999999999999a, 0x4340000000000000, 0x43e0000000000000,
	0x41dfffffffc00000, 0x41e0000000000000, 0x3ff8000000000000, 0x4059000000000000}

// Random numeric scalar of that kind. nonzero: the value must be "present" as a proto3 singular field for the
// REFERENCE, i.e. different from the Go zero value. The reference compares floats with ==, so a singular -0.0 counts
// as zero too (dropped); the same happens to a -0.0 MAP VALUE when the reference decodes the entry message (it comes
// back as +0.0): noNegZero excludes the -0.0 bit patterns (list elements keep them).
// small: 1-byte varints (for long packed lists).
func (g *pgValGen) scalar(f *pgField, kind int, nonzero, noNegZero, small bool) *pgVal {
	r := g.r
	for {
		var img *big.Int
		switch {
		case kind == pgKEnum:
			e := g.c.S.enum(f.EnumName)
			if r.chance(80) || small {
				img = big.NewInt(int64(e.Values[r.intn(len(e.Values))]))
			} else {
				img = pgImage(kind, r.u64()) // proto3 enums are open: undeclared numbers are legal
			}
		case small:
			img = pgImage(kind, uint64(r.intn(100)))
		case kind == pgKFloat:
			var b uint32
			if r.chance(40) {
				b = pgFloatBits[r.intn(len(pgFloatBits))]
			} else {
				b = uint32(r.next())
			}
			// The reference converts float32 -> float64 -> float32 (reflect), which quiets signalling NaNs on amd64:
			// keep quiet NaNs only (payload and sign stay arbitrary).
			if b&0x7f800000 == 0x7f800000 && b&0x007fffff != 0 {
				b |= 0x00400000
			}
			img = new(big.Int).SetUint64(uint64(b))
		case kind == pgKDouble:
			var b uint64
			if r.chance(40) {
				b = pgDoubleBits[r.intn(len(pgDoubleBits))]
			} else {
				b = r.next()
			}
			img = new(big.Int).SetUint64(b)
		default:
			img = pgImage(kind, r.u64())
		}
		if nonzero && img.Sign() == 0 {
			continue
		}
		if (nonzero || noNegZero) && (kind == pgKFloat && img.Uint64() == 0x80000000 || kind == pgKDouble && img.Uint64() == 0x8000000000000000) {
			continue
		}
		return pgNum(kind, img)
	}
}

var pgRunes = []rune{'a', 'b', 'z', 'A', '0', '9', ' ', '_', '-', '/', '"', '\\', '\n', '\t', '\r', 0x01, 0x1f, 0x7f, '<', '>', '&', '\'',
	0x80, 0xe9, 0x7ff, 0x800, 0x4e2d, 0x2028, 0xfffd, 0xffff, 0x10000, 0x1f600, 0x10ffff}

var pgLens = []int{0, 1, 5, 127, 128, 300}

func (g *pgValGen) length(nonempty bool) int {
	r := g.r
	for {
		var n int
		switch x := r.intn(100); {
		case x < 12 && g.budget > 0:
			n = pgLens[r.intn(len(pgLens))]
			if n > 100 {
				g.budget -= 10
			}
		case x < 20:
			n = 0
		default:
			n = 1 + r.intn(12)
		}
		if n > 0 || !nonempty {
			return n
		}
	}
}

// valid UTF-8 of exactly n bytes
func (g *pgValGen) utf8(n int) []byte {
	r := g.r
	b := make([]byte, 0, n)
	for len(b) < n {
		var c rune
		if r.chance(60) {
			c = rune('a' + r.intn(26))
		} else {
			c = pgRunes[r.intn(len(pgRunes))]
		}
		e := []byte(string(c))
		if len(b)+len(e) > n {
			e = []byte{'x'}
		}
		b = append(b, e...)
	}
	return b
}

func (g *pgValGen) strOrBytes(kind int, nonempty bool) *pgVal {
	n := g.length(nonempty)
	if kind == pgKString {
		return pgStr(kind, g.utf8(n))
	}
	return pgStr(kind, g.r.bytes(n))
}

type pgValGen struct {
	r      *rng
	c      *pgCompiled
	budget int // remaining message nodes / long strings
}

// random message value of type msgName in canonical form; depth is the current nesting depth (0 for a top-level
// value): message-kind fields are left absent once depth >= S.Opts.MaxDepth
func genProtoValue(r *rng, c *pgCompiled, msgName string, depth int) *pgVal {
	g := &pgValGen{r: r, c: c, budget: 60 + r.intn(200)}
	return g.message(msgName, depth)
}

func (g *pgValGen) elem(f *pgField, depth int, small bool) *pgVal {
	inMap := f.Label == pgMap
	switch {
	case f.Kind == pgKMessage:
		if g.budget <= 0 || depth+1 > g.c.S.Opts.withDefaults().MaxDepth || g.r.chance(15) {
			return &pgVal{Tag: 1, Kind: pgKMessage} // empty message element / map value
		}
		return g.message(f.MsgName, depth+1)
	case pgIsBytesKind(f.Kind):
		return g.strOrBytes(f.Kind, false)
	}
	return g.scalar(f, f.Kind, false, inMap, small)
}

func (g *pgValGen) mapKey(kk int) *pgVal {
	r := g.r
	if kk == pgKString {
		if r.chance(15) {
			return pgStr(kk, nil)
		}
		return g.strOrBytes(kk, false)
	}
	if r.chance(15) {
		return pgNum(kk, big.NewInt(0))
	}
	if r.chance(30) {
		return pgNum(kk, pgImage(kk, uint64(r.intn(4))))
	}
	return pgNum(kk, pgImage(kk, r.u64()))
}

func (g *pgValGen) message(msgName string, depth int) *pgVal {
	r := g.r
	g.budget--
	m := g.c.S.msg(msgName)
	v := &pgVal{Tag: 1, Kind: pgKMessage}
	maxDepth := g.c.S.Opts.withDefaults().MaxDepth
	for _, f := range m.sorted() {
		if !r.chance(70) {
			continue
		}
		if f.Kind == pgKMessage && (depth >= maxDepth || g.budget <= 0) {
			continue
		}
		var fv *pgVal
		switch f.Label {
		case pgSingular:
			switch {
			case f.Kind == pgKMessage:
				if r.chance(20) {
					fv = &pgVal{Tag: 1, Kind: pgKMessage} // present but empty
				} else {
					fv = g.message(f.MsgName, depth+1)
				}
			case pgIsBytesKind(f.Kind):
				fv = g.strOrBytes(f.Kind, true)
			default:
				fv = g.scalar(f, f.Kind, true, true, false)
			}
		case pgRepeated:
			fv = &pgVal{Tag: 4, Kind: f.Kind, Packed: pgIsNumKind(f.Kind)}
			n := 1 + r.intn(6)
			small := false
			if fv.Packed && r.chance(5) && g.budget > 0 {
				n, small = 130+r.intn(40), true
				g.budget -= 10
			}
			for i := 0; i < n; i++ {
				fv.Elems = append(fv.Elems, g.elem(f, depth, small))
			}
		case pgMap:
			fv = &pgVal{Tag: 5, Kind: f.Kind, KeyKind: f.KeyKind}
			n := 1 + r.intn(5)
			seen := map[string]bool{}
			for i := 0; i < n; i++ {
				var k *pgVal
				for try := 0; try < 8; try++ {
					c := g.mapKey(f.KeyKind)
					id := string(c.B)
					if c.Tag == 2 {
						id = c.I.String()
					}
					if !seen[id] {
						seen[id] = true
						k = c
						break
					}
				}
				if k == nil {
					break // bool keys: at most two
				}
				fv.Entries = append(fv.Entries, pgKV{K: k, V: g.elem(f, depth, false)})
			}
			pgSortEntries(fv.Entries)
		}
		v.Fields = append(v.Fields, pgFV{F: f, V: fv})
	}
	return v
}

// ---- reference (jhump/protoreflect dynamic.Message) -------------------------------------------

func pgToGo(kind int, v *pgVal) interface{} {
	switch kind {
	case 5, 14, 15, 17:
		return int32(v.I.Int64())
	case 3, 16, 18:
		return v.I.Int64()
	case 7, 13:
		return uint32(v.I.Uint64())
	case 4, 6:
		return v.I.Uint64()
	case pgKBool:
		return v.I.Sign() != 0
	case pgKFloat:
		return math.Float32frombits(uint32(v.I.Uint64()))
	case pgKDouble:
		return math.Float64frombits(v.I.Uint64())
	case pgKString:
		return string(v.B)
	case pgKBytes:
		return append([]byte{}, v.B...)
	}
	panic(fmt.Sprintf("pgToGo: kind %d", kind))
}

func pgFromGo(kind int, x interface{}) (*pgVal, error) {
	bad := func() (*pgVal, error) { return nil, fmt.Errorf("reference value of Go type %T for kind %d", x, kind) }
	switch kind {
	case 5, 14, 15, 17:
		if y, ok := x.(int32); ok {
			return pgNum(kind, big.NewInt(int64(y))), nil
		}
	case 3, 16, 18:
		if y, ok := x.(int64); ok {
			return pgNum(kind, big.NewInt(y)), nil
		}
	case 7, 13:
		if y, ok := x.(uint32); ok {
			return pgNum(kind, new(big.Int).SetUint64(uint64(y))), nil
		}
	case 4, 6:
		if y, ok := x.(uint64); ok {
			return pgNum(kind, new(big.Int).SetUint64(y)), nil
		}
	case pgKBool:
		if y, ok := x.(bool); ok {
			if y {
				return pgNum(kind, big.NewInt(1)), nil
			}
			return pgNum(kind, big.NewInt(0)), nil
		}
	case pgKFloat:
		if y, ok := x.(float32); ok {
			return pgNum(kind, new(big.Int).SetUint64(uint64(math.Float32bits(y)))), nil
		}
	case pgKDouble:
		if y, ok := x.(float64); ok {
			return pgNum(kind, new(big.Int).SetUint64(math.Float64bits(y))), nil
		}
	case pgKString:
		if y, ok := x.(string); ok {
			return pgStr(kind, []byte(y)), nil
		}
	case pgKBytes:
		if y, ok := x.([]byte); ok {
			return pgStr(kind, append([]byte{}, y...)), nil
		}
	}
	return bad()
}

// builds the reference message (panics on a value that does not fit the schema: a generator bug)
func (c *pgCompiled) toDynamic(v *pgVal, msgName string) *dynamic.Message {
	md := c.RefMsgs[msgName]
	if md == nil {
		panic("toDynamic: unknown message " + msgName)
	}
	dm := dynamic.NewMessage(md)
	one := func(f *pgField, e *pgVal) interface{} {
		if f.Kind == pgKMessage {
			return c.toDynamic(e, f.MsgName)
		}
		return pgToGo(f.Kind, e)
	}
	for _, fv := range v.Fields {
		f := fv.F
		fd := md.FindFieldByNumber(f.Num)
		if fd == nil {
			panic(fmt.Sprintf("toDynamic: %s has no field %d", msgName, f.Num))
		}
		switch f.Label {
		case pgSingular:
			dm.SetField(fd, one(f, fv.V))
		case pgRepeated:
			l := make([]interface{}, 0, len(fv.V.Elems))
			for _, e := range fv.V.Elems {
				l = append(l, one(f, e))
			}
			dm.SetField(fd, l)
		case pgMap:
			mp := make(map[interface{}]interface{}, len(fv.V.Entries))
			for _, kv := range fv.V.Entries {
				mp[pgToGo(f.KeyKind, kv.K)] = one(f, kv.V)
			}
			dm.SetField(fd, mp)
		}
	}
	return dm
}

// toDynamic + MarshalDeterministic (fields ascending by number, map entries sorted by key)
func (c *pgCompiled) encodeRef(v *pgVal, msgName string) (b []byte, err error) {
	if ok, msg := noPanic(func() { b, err = c.toDynamic(v, msgName).MarshalDeterministic() }); !ok {
		return nil, fmt.Errorf("encodeRef: panic: %s", msg)
	}
	return b, err
}

// Decodes b with the reference and converts what the REFERENCE reports (only present singular fields, non-empty
// repeated fields and maps; unknown fields are ignored) into the canonical pgVal.
func (c *pgCompiled) dumpRef(b []byte, msgName string) (v *pgVal, err error) {
	md := c.RefMsgs[msgName]
	if md == nil {
		return nil, fmt.Errorf("dumpRef: unknown message %s", msgName)
	}
	dm := dynamic.NewMessage(md)
	if ok, msg := noPanic(func() {
		if err = dm.Unmarshal(b); err == nil {
			v, err = c.fromDynamic(dm, msgName)
		}
	}); !ok {
		return nil, fmt.Errorf("dumpRef: panic: %s", msg)
	}
	return v, err
}

func (c *pgCompiled) fromDynamic(dm *dynamic.Message, msgName string) (*pgVal, error) {
	m := c.S.msg(msgName)
	v := &pgVal{Tag: 1, Kind: pgKMessage}
	if dm == nil {
		return v, nil // absent map value: the reference reports a nil message
	}
	md := dm.GetMessageDescriptor()
	one := func(f *pgField, x interface{}) (*pgVal, error) {
		if f.Kind == pgKMessage {
			sub, ok := x.(*dynamic.Message)
			if !ok {
				return nil, fmt.Errorf("reference value of Go type %T for message field %s", x, f.Name)
			}
			return c.fromDynamic(sub, f.MsgName)
		}
		return pgFromGo(f.Kind, x)
	}
	for _, f := range m.sorted() {
		fd := md.FindFieldByNumber(f.Num)
		if fd == nil {
			return nil, fmt.Errorf("reference descriptor %s has no field %d", msgName, f.Num)
		}
		var fv *pgVal
		switch f.Label {
		case pgSingular:
			if !dm.HasField(fd) {
				continue
			}
			e, err := one(f, dm.GetField(fd))
			if err != nil {
				return nil, err
			}
			fv = e
		case pgRepeated:
			l, ok := dm.GetField(fd).([]interface{})
			if !ok {
				return nil, fmt.Errorf("reference repeated field %s is a %T", f.Name, dm.GetField(fd))
			}
			if len(l) == 0 {
				continue
			}
			fv = &pgVal{Tag: 4, Kind: f.Kind, Packed: pgIsNumKind(f.Kind)}
			for _, x := range l {
				e, err := one(f, x)
				if err != nil {
					return nil, err
				}
				fv.Elems = append(fv.Elems, e)
			}
		case pgMap:
			mp, ok := dm.GetField(fd).(map[interface{}]interface{})
			if !ok {
				return nil, fmt.Errorf("reference map field %s is a %T", f.Name, dm.GetField(fd))
			}
			if len(mp) == 0 {
				continue
			}
			fv = &pgVal{Tag: 5, Kind: f.Kind, KeyKind: f.KeyKind}
			for kx, vx := range mp { // order fixed by the sort below (keys are distinct)
				k, err := pgFromGo(f.KeyKind, kx)
				if err != nil {
					return nil, err
				}
				e, err := one(f, vx)
				if err != nil {
					return nil, err
				}
				fv.Entries = append(fv.Entries, pgKV{K: k, V: e})
			}
			pgSortEntries(fv.Entries)
		}
		v.Fields = append(v.Fields, pgFV{F: f, V: fv})
	}
	return v, nil
}

// ---- serialisation / comparison ---------------------------------------------------------------

// prefix encoding:
//
//	message  n1 n<#fields> { n<Num> value }
//	scalar   n2 n<Kind> n<I>
//	str/byt  n3 n<Kind> x<B>
//	list     n4 n<Packed> n<Kind> n<#elems> { value }
//	map      n5 n<KeyKind> n<Kind> n<#entries> { key value }
func (v *pgVal) caseFields() []string {
	var out []string
	var walk func(v *pgVal)
	walk = func(v *pgVal) {
		switch v.Tag {
		case 1:
			out = append(out, fi(1), fi(len(v.Fields)))
			for _, fv := range v.Fields {
				out = append(out, fi(int(fv.F.Num)))
				walk(fv.V)
			}
		case 2:
			out = append(out, fi(2), fi(v.Kind), fbig(v.I))
		case 3:
			out = append(out, fi(3), fi(v.Kind), fx(v.B))
		case 4:
			out = append(out, fi(4), fb(v.Packed), fi(v.Kind), fi(len(v.Elems)))
			for _, e := range v.Elems {
				walk(e)
			}
		case 5:
			out = append(out, fi(5), fi(v.KeyKind), fi(v.Kind), fi(len(v.Entries)))
			for _, kv := range v.Entries {
				walk(kv.K)
				walk(kv.V)
			}
		default:
			panic(fmt.Sprintf("pgVal.caseFields: tag %d", v.Tag))
		}
	}
	walk(v)
	return out
}

func pgValEqual(a, b *pgVal) bool {
	if a == nil || b == nil {
		return a == b
	}
	if a.Tag != b.Tag {
		return false
	}
	switch a.Tag {
	case 1:
		if len(a.Fields) != len(b.Fields) {
			return false
		}
		for i := range a.Fields {
			if a.Fields[i].F.Num != b.Fields[i].F.Num || !pgValEqual(a.Fields[i].V, b.Fields[i].V) {
				return false
			}
		}
		return true
	case 2:
		return a.Kind == b.Kind && a.I.Cmp(b.I) == 0
	case 3:
		return a.Kind == b.Kind && bytes.Equal(a.B, b.B)
	case 4:
		if a.Kind != b.Kind || a.Packed != b.Packed || len(a.Elems) != len(b.Elems) {
			return false
		}
		for i := range a.Elems {
			if !pgValEqual(a.Elems[i], b.Elems[i]) {
				return false
			}
		}
		return true
	case 5:
		if a.Kind != b.Kind || a.KeyKind != b.KeyKind || len(a.Entries) != len(b.Entries) {
			return false
		}
		for i := range a.Entries {
			if !pgValEqual(a.Entries[i].K, b.Entries[i].K) || !pgValEqual(a.Entries[i].V, b.Entries[i].V) {
				return false
			}
		}
		return true
	}
	return false
}

// path and rendering of the first difference ("" when equal); diagnostics only
func pgValDiff(a, b *pgVal) string {
	if pgValEqual(a, b) {
		return ""
	}
	if a == nil || b == nil || a.Tag != b.Tag {
		return fmt.Sprintf(": %v  <>  %v", a, b)
	}
	switch a.Tag {
	case 1:
		for i := 0; i < len(a.Fields) && i < len(b.Fields); i++ {
			if a.Fields[i].F.Num != b.Fields[i].F.Num {
				return fmt.Sprintf(": field #%d is number %d <> %d", i, a.Fields[i].F.Num, b.Fields[i].F.Num)
			}
			if d := pgValDiff(a.Fields[i].V, b.Fields[i].V); d != "" {
				return fmt.Sprintf(".%d%s", a.Fields[i].F.Num, d)
			}
		}
		return fmt.Sprintf(": %d <> %d fields", len(a.Fields), len(b.Fields))
	case 4:
		if a.Kind == b.Kind && a.Packed == b.Packed {
			for i := 0; i < len(a.Elems) && i < len(b.Elems); i++ {
				if d := pgValDiff(a.Elems[i], b.Elems[i]); d != "" {
					return fmt.Sprintf("[%d]%s", i, d)
				}
			}
			return fmt.Sprintf(": %d <> %d elements", len(a.Elems), len(b.Elems))
		}
	case 5:
		if a.Kind == b.Kind && a.KeyKind == b.KeyKind {
			for i := 0; i < len(a.Entries) && i < len(b.Entries); i++ {
				if d := pgValDiff(a.Entries[i].K, b.Entries[i].K); d != "" {
					return fmt.Sprintf("<key %d>%s", i, d)
				}
				if d := pgValDiff(a.Entries[i].V, b.Entries[i].V); d != "" {
					return fmt.Sprintf("<%s>%s", a.Entries[i].K, d)
				}
			}
			return fmt.Sprintf(": %d <> %d entries", len(a.Entries), len(b.Entries))
		}
	}
	return fmt.Sprintf(": %v  <>  %v", a, b)
}

// compact human readable rendering (diagnostics only)
func (v *pgVal) String() string {
	if v == nil {
		return "<nil>"
	}
	switch v.Tag {
	case 1:
		var p []string
		for _, fv := range v.Fields {
			p = append(p, fmt.Sprintf("%d:%s", fv.F.Num, fv.V.String()))
		}
		return "{" + strings.Join(p, " ") + "}"
	case 2:
		return fmt.Sprintf("%s(%s)", pgKindNames[v.Kind], v.I.String())
	case 3:
		return fmt.Sprintf("%s(%x)", pgKindNames[v.Kind], v.B)
	case 4:
		var p []string
		for _, e := range v.Elems {
			p = append(p, e.String())
		}
		return "[" + strings.Join(p, " ") + "]"
	case 5:
		var p []string
		for _, kv := range v.Entries {
			p = append(p, kv.K.String()+"=>"+kv.V.String())
		}
		return "map[" + strings.Join(p, " ") + "]"
	}
	return "?"
}

// ---- non-ascending wire orders ----------------------------------------------------------------

// permuteWire re-orders the fields of the encoded message b (of type msgName) and, recursively, of its
// sub-messages (singular, list elements, map values): the records of one field number stay together and in
// order (as every encoder writes them), the groups are shuffled. Field order on the wire is free, and the
// reference encoder itself writes oneof members after the regular fields, so readers must not assume
// ascending field numbers. The length of b is unchanged. On any parse problem b is returned as it is.
func (c *pgCompiled) permuteWire(r *rng, msgName string, b []byte) []byte {
	m := c.S.msg(msgName)
	if m == nil {
		return b
	}
	type group struct {
		recs [][]byte
	}
	var groups []*group
	byNum := map[pw.Number]*group{}
	rest := b
	for len(rest) > 0 {
		num, typ, n := pw.ConsumeTag(rest)
		if n < 0 {
			return b
		}
		vn := pw.ConsumeFieldValue(num, typ, rest[n:])
		if vn < 0 {
			return b
		}
		rec := rest[:n+vn]
		if f := m.byNum(int32(num)); f != nil && typ == pw.BytesType && f.Kind == pgKMessage {
			payload, _ := pw.ConsumeBytes(rest[n:])
			var inner []byte
			if f.Label == pgMap {
				inner = c.permuteEntry(r, f, payload)
			} else {
				inner = c.permuteWire(r, f.MsgName, payload)
			}
			rec = pw.AppendBytes(append([]byte{}, rest[:n]...), inner)
		}
		g := byNum[num]
		if g == nil {
			g = &group{}
			byNum[num] = g
			groups = append(groups, g)
		}
		g.recs = append(g.recs, rec)
		rest = rest[n+vn:]
	}
	if r.chance(80) {
		for i := len(groups) - 1; i > 0; i-- {
			j := r.intn(i + 1)
			groups[i], groups[j] = groups[j], groups[i]
		}
	}
	out := make([]byte, 0, len(b))
	for _, g := range groups {
		for _, rec := range g.recs {
			out = append(out, rec...)
		}
	}
	if len(out) != len(b) {
		return b
	}
	return out
}

// a map entry keeps key (1) before value (2); a message value is permuted inside
func (c *pgCompiled) permuteEntry(r *rng, f *pgField, b []byte) []byte {
	out := make([]byte, 0, len(b))
	rest := b
	for len(rest) > 0 {
		num, typ, n := pw.ConsumeTag(rest)
		if n < 0 {
			return b
		}
		vn := pw.ConsumeFieldValue(num, typ, rest[n:])
		if vn < 0 {
			return b
		}
		rec := rest[:n+vn]
		if num == 2 && typ == pw.BytesType {
			payload, _ := pw.ConsumeBytes(rest[n:])
			rec = pw.AppendBytes(append([]byte{}, rest[:n]...), c.permuteWire(r, f.MsgName, payload))
		}
		out = append(out, rec...)
		rest = rest[n+vn:]
	}
	if len(out) != len(b) {
		return b
	}
	return out
}
