//go:build verif

package main

// C08, algorithm level: check 802 judges the implementation's text against the byte-walking model
// (coq/model/P2JBytes.v) on the cases the C08 generator produces for check 801 - the same fields, second check id.
// Every second case is written a second time under id 802 (the walk needs no decoding, it costs a few ms per case).
func init() {
	n := 0
	c08Extra = func(fields []string) {
		n++
		if n%2 == 0 {
			out.emit(802, fields...)
		}
	}
}
