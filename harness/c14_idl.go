//go:build verif

// C14 — abstract Thrift IDL programs: generator, .thrift printer, token encoder (parsed by coq/model/Check14.v),
// descriptor dump through the public accessors (check 1405) and lookup sweeps on the reachable structs (check 1406).
package main

import (
	"context"
	"fmt"
	"math"
	"os"
	"sort"
	"strings"

	"github.com/cloudwego/dynamicgo/meta"
	"github.com/cloudwego/dynamicgo/thrift"
	_ "github.com/cloudwego/dynamicgo/thrift/annotation"
)

// ---- AST (mirror of coq/model/Idl.v) ---------------------------------------------------------------------

type iTexpr struct {
	Tag  int // 0 base, 1 list, 2 set, 3 map, 4 named
	Base int // 0 bool,1 byte,2 i8,3 i16,4 i32,5 i64,6 double,7 string,8 binary,9 void
	K, V *iTexpr
	Name string
}

type iConst struct {
	Tag  int // 0 none, 1 int, 2 double, 3 string, 4 ident, 5 other
	I    int64
	Bits uint64
	S    string
	Text string // IDL text for doubles / others
}

type iAnno struct {
	Key  string
	Vals []string
	Text string // IDL text of the value when it differs from Vals (go.tag)
}

type iField struct {
	ID    int
	Name  string
	T     *iTexpr
	Req   int // 0 default, 1 required, 2 optional
	Def   iConst
	Annos []iAnno
}

type iStruct struct {
	Kind   int // 0 struct, 1 union, 2 exception
	Name   string
	Fields []*iField
	Annos  []iAnno
}

type iFunc struct {
	Name   string
	Oneway bool
	Ret    *iTexpr
	Args   []*iField
	Throws []*iField
}

type iSvc struct {
	Name    string
	Extends string
	Funcs   []*iFunc
}

type iEnum struct {
	Name string
	Vals []struct {
		N string
		V int64
	}
}

type iFile struct {
	Path     string
	NS       [][2]string
	Includes []struct {
		Alias string
		Idx   int
	}
	Typedefs []struct {
		N string
		T *iTexpr
	}
	Enums  []*iEnum
	Consts []struct {
		N string
		T *iTexpr
		V iConst
	}
	Structs []*iStruct
	Svcs    []*iSvc
}

type iOpts struct {
	MapWay, FnMode, SvcMode                                  int
	Enum64, OptBitmap, UseDefault, Base, BodyFast, PutNS, PutFile bool
	SvcName                                                  string
}

var baseNames = []string{"bool", "byte", "i8", "i16", "i32", "i64", "double", "string", "binary", "void"}

// ---- printer ---------------------------------------------------------------------------------------------

func (t *iTexpr) text() string {
	switch t.Tag {
	case 0:
		return baseNames[t.Base]
	case 1:
		return "list<" + t.K.text() + ">"
	case 2:
		return "set<" + t.K.text() + ">"
	case 3:
		return "map<" + t.K.text() + "," + t.V.text() + ">"
	}
	return t.Name
}

func (c iConst) text() string {
	switch c.Tag {
	case 1:
		return fmt.Sprint(c.I)
	case 2, 5:
		return c.Text
	case 3:
		return "\"" + c.S + "\""
	case 4:
		return c.S
	}
	return ""
}

func annosText(as []iAnno) string {
	if len(as) == 0 {
		return ""
	}
	var parts []string
	for _, a := range as {
		if a.Text != "" {
			parts = append(parts, a.Key+" = "+a.Text)
			continue
		}
		for _, v := range a.Vals {
			parts = append(parts, a.Key+" = \""+v+"\"")
		}
	}
	return " (" + strings.Join(parts, ", ") + ")"
}

func fieldText(f *iField) string {
	req := ""
	if f.Req == 1 {
		req = "required "
	} else if f.Req == 2 {
		req = "optional "
	}
	def := ""
	if f.Def.Tag != 0 {
		def = " = " + f.Def.text()
	}
	return fmt.Sprintf("%d: %s%s %s%s%s", f.ID, req, f.T.text(), f.Name, def, annosText(f.Annos))
}

func (f *iFile) text(prog []*iFile) string {
	var sb strings.Builder
	for _, ns := range f.NS {
		sb.WriteString("namespace " + ns[0] + " " + ns[1] + "\n")
	}
	for _, inc := range f.Includes {
		p := prog[inc.Idx].Path
		sb.WriteString("include \"" + p[strings.LastIndex(p, "/")+1:] + "\"\n")
	}
	for _, e := range f.Enums {
		sb.WriteString("enum " + e.Name + " {\n")
		for _, v := range e.Vals {
			sb.WriteString(fmt.Sprintf("  %s = %d\n", v.N, v.V))
		}
		sb.WriteString("}\n")
	}
	for _, td := range f.Typedefs {
		sb.WriteString("typedef " + td.T.text() + " " + td.N + "\n")
	}
	for _, c := range f.Consts {
		sb.WriteString("const " + c.T.text() + " " + c.N + " = " + c.V.text() + "\n")
	}
	for _, s := range f.Structs {
		sb.WriteString([]string{"struct", "union", "exception"}[s.Kind] + " " + s.Name + " {\n")
		for _, fd := range s.Fields {
			sb.WriteString("  " + fieldText(fd) + "\n")
		}
		sb.WriteString("}" + annosText(s.Annos) + "\n")
	}
	for _, sv := range f.Svcs {
		sb.WriteString("service " + sv.Name)
		if sv.Extends != "" {
			sb.WriteString(" extends " + sv.Extends)
		}
		sb.WriteString(" {\n")
		for _, fn := range sv.Funcs {
			sb.WriteString("  ")
			if fn.Oneway {
				sb.WriteString("oneway ")
			}
			var args, thr []string
			for _, a := range fn.Args {
				args = append(args, fieldText(a))
			}
			for _, a := range fn.Throws {
				thr = append(thr, fieldText(a))
			}
			sb.WriteString(fn.Ret.text() + " " + fn.Name + "(" + strings.Join(args, ", ") + ")")
			if len(thr) > 0 {
				sb.WriteString(" throws (" + strings.Join(thr, ", ") + ")")
			}
			sb.WriteString("\n")
		}
		sb.WriteString("}\n")
	}
	return sb.String()
}

// ---- token encoder ------------------------------------------------------------------------------------------

func (t *toks) texpr(x *iTexpr) {
	t.i(x.Tag)
	switch x.Tag {
	case 0:
		t.i(x.Base)
	case 1, 2:
		t.texpr(x.K)
	case 3:
		t.texpr(x.K)
		t.texpr(x.V)
	default:
		t.s(x.Name)
	}
}

func (t *toks) cval(c iConst) {
	t.i(c.Tag)
	switch c.Tag {
	case 1:
		t.z(c.I)
	case 2:
		t.bigu(c.Bits)
	case 3, 4:
		t.s(c.S)
	}
}

func (t *toks) bigu(v uint64) { *t = append(*t, fu(v)) }

func (t *toks) annos(as []iAnno) {
	t.i(len(as))
	for _, a := range as {
		t.s(a.Key)
		t.i(len(a.Vals))
		for _, v := range a.Vals {
			t.s(v)
		}
	}
}

func (t *toks) field(f *iField) {
	t.i(f.ID)
	t.s(f.Name)
	t.texpr(f.T)
	t.i(f.Req)
	t.cval(f.Def)
	t.annos(f.Annos)
}

func (t *toks) program(prog []*iFile) {
	t.i(len(prog))
	for _, f := range prog {
		t.s(f.Path)
		t.i(len(f.NS))
		for _, ns := range f.NS {
			t.s(ns[0])
			t.s(ns[1])
		}
		t.i(len(f.Includes))
		for _, inc := range f.Includes {
			t.s(inc.Alias)
			t.i(inc.Idx)
		}
		t.i(len(f.Typedefs))
		for _, td := range f.Typedefs {
			t.s(td.N)
			t.texpr(td.T)
		}
		t.i(len(f.Enums))
		for _, e := range f.Enums {
			t.s(e.Name)
			t.i(len(e.Vals))
			for _, v := range e.Vals {
				t.s(v.N)
				t.z(v.V)
			}
		}
		t.i(len(f.Consts))
		for _, c := range f.Consts {
			t.s(c.N)
			t.cval(c.V)
		}
		t.i(len(f.Structs))
		for _, s := range f.Structs {
			t.i(s.Kind)
			t.s(s.Name)
			t.i(len(s.Fields))
			for _, fd := range s.Fields {
				t.field(fd)
			}
			t.annos(s.Annos)
		}
		t.i(len(f.Svcs))
		for _, sv := range f.Svcs {
			t.s(sv.Name)
			t.s(sv.Extends)
			t.i(len(sv.Funcs))
			for _, fn := range sv.Funcs {
				t.s(fn.Name)
				t.bool(fn.Oneway)
				t.texpr(fn.Ret)
				t.i(len(fn.Args))
				for _, a := range fn.Args {
					t.field(a)
				}
				t.i(len(fn.Throws))
				for _, a := range fn.Throws {
					t.field(a)
				}
			}
		}
	}
}

func (t *toks) opts(o iOpts) {
	t.i(o.MapWay)
	t.bool(o.Enum64)
	t.bool(o.OptBitmap)
	t.bool(o.UseDefault)
	t.i(o.FnMode)
	t.i(o.SvcMode)
	t.s(o.SvcName)
	t.bool(o.Base)
	t.bool(o.BodyFast)
	t.bool(o.PutNS)
	t.bool(o.PutFile)
}

// ---- descriptor dump through the public accessors ---------------------------------------------------------------

func dumpDefault(t *toks, dv *thrift.DefaultValue) {
	if dv == nil {
		t.i(0)
		return
	}
	switch v := dv.GoValue().(type) {
	case int64:
		t.i(1)
		t.z(v)
		t.s(dv.ThriftBinary())
	case float64:
		t.i(2)
		t.bigu(math.Float64bits(v))
	case string:
		t.i(3)
		t.s(v)
		t.s(dv.ThriftBinary())
	case bool:
		t.i(4)
		t.bool(v)
		t.s(dv.ThriftBinary())
	default:
		t.i(9)
	}
}

func keyID(st *thrift.StructDescriptor, k string) int {
	if f := st.FieldByKey(k); f != nil {
		return int(f.ID())
	}
	return -1
}

func dumpStruct(t *toks, d *thrift.TypeDescriptor, sdepth int, wrapper bool, seen *[]*thrift.TypeDescriptor) {
	st := d.Struct()
	if !wrapper {
		*seen = append(*seen, d)
	}
	t.i(12)
	t.s(d.Name())
	t.s(st.Name())
	as := st.Annotations()
	t.i(len(as))
	for _, a := range as {
		t.s(a.Key)
		t.i(len(a.Values))
		for _, v := range a.Values {
			t.s(v)
		}
	}
	fs := append([]*thrift.FieldDescriptor{}, st.Fields()...)
	sort.SliceStable(fs, func(i, j int) bool { return fs[i].ID() < fs[j].ID() })
	t.i(len(fs))
	for _, f := range fs {
		t.i(int(f.ID()))
		t.s(f.Name())
		t.s(f.Alias())
		t.i(int(f.Required()))
		bit := 0
		if !wrapper {
			ok, _ := noPanic(func() {
				if st.Requires().IsSet(f.ID()) {
					bit = 1
				}
			})
			if !ok {
				bit = -1
			}
		}
		t.i(bit)
		t.bool(f.IsRequestBase())
		t.bool(f.IsResponseBase())
		t.i(keyID(st, f.Alias()))
		t.i(keyID(st, f.Name()))
		dumpDefault(t, f.DefaultValue())
		nd := sdepth
		if !wrapper {
			nd = sdepth - 1
		}
		dumpDesc(t, f.Type(), nd, seen)
	}
}

func dumpDesc(t *toks, d *thrift.TypeDescriptor, sdepth int, seen *[]*thrift.TypeDescriptor) {
	switch d.Type() {
	case thrift.LIST:
		t.i(15)
		dumpDesc(t, d.Elem(), sdepth, seen)
	case thrift.SET:
		t.i(14)
		dumpDesc(t, d.Elem(), sdepth, seen)
	case thrift.MAP:
		t.i(13)
		dumpDesc(t, d.Key(), sdepth, seen)
		dumpDesc(t, d.Elem(), sdepth, seen)
	case thrift.STRUCT:
		if sdepth <= 0 {
			t.i(99)
			return
		}
		dumpStruct(t, d, sdepth, false, seen)
	default:
		t.i(int(d.Type()))
		t.bool(d.IsBinary())
	}
}

func dumpService(t *toks, svc *thrift.ServiceDescriptor, sdepth int, seen *[]*thrift.TypeDescriptor) {
	t.i(1)
	t.s(svc.Name())
	var names []string
	for n := range svc.Functions() {
		names = append(names, n)
	}
	sort.Strings(names)
	t.i(len(names))
	for _, n := range names {
		f := svc.Functions()[n]
		t.s(f.Name())
		t.bool(f.Oneway())
		t.bool(f.HasRequestBase())
		for _, d := range []*thrift.TypeDescriptor{f.Request(), f.Response()} {
			if d == nil {
				t.i(0)
			} else {
				t.i(1)
				dumpStruct(t, d, sdepth, true, seen)
			}
		}
	}
}

// ---- generator -------------------------------------------------------------------------------------------------------

type igen struct {
	r      *rng
	prog   []*iFile
	nname  int
	hasB   bool // base.thrift is file index baseIdx
	baseIx int
}

func (g *igen) fresh(p string) string {
	g.nname++
	return fmt.Sprintf("%s%d", p, g.nname)
}

var fieldNamePool = []string{"id", "name", "value", "data", "items", "count", "flag", "msg", "code", "extra", "key", "Key", "userName", "user_name", "a", "b", "ab", "ba", "x1", "x2", "payload", "next", "child", "kind"}

// named types visible from file fi: (reference text, category 0 struct-like 1 enum 2 typedef-to-anything)
type namedRef struct {
	Text string
	Cat  int
	Exc  bool
}

func (g *igen) visible(fi int) []namedRef {
	var out []namedRef
	add := func(prefix string, f *iFile) {
		for _, s := range f.Structs {
			if strings.HasPrefix(s.Name, "Root") {
				continue // root-only structs are referenced by exactly one function
			}
			out = append(out, namedRef{prefix + s.Name, 0, s.Kind == 2})
		}
		for _, e := range f.Enums {
			out = append(out, namedRef{prefix + e.Name, 1, false})
		}
		for _, td := range f.Typedefs {
			out = append(out, namedRef{prefix + td.N, 2, false})
		}
	}
	f := g.prog[fi]
	add("", f)
	for _, inc := range f.Includes {
		if g.hasB && inc.Idx == g.baseIx {
			continue
		}
		add(inc.Alias+".", g.prog[inc.Idx])
	}
	return out
}

func (g *igen) genTexpr(fi int, depth int, allowNamed bool) *iTexpr {
	r := g.r
	vis := g.visible(fi)
	if allowNamed && len(vis) > 0 && r.chance(40) {
		v := vis[r.intn(len(vis))]
		return &iTexpr{Tag: 4, Name: v.Text}
	}
	if depth < 2 && r.chance(30) {
		switch r.intn(3) {
		case 0:
			return &iTexpr{Tag: 1, K: g.genTexpr(fi, depth+1, allowNamed)}
		case 1:
			return &iTexpr{Tag: 2, K: &iTexpr{Tag: 0, Base: []int{4, 5, 7, 3}[r.intn(4)]}}
		default:
			return &iTexpr{Tag: 3, K: &iTexpr{Tag: 0, Base: []int{7, 4, 5, 7}[r.intn(4)]}, V: g.genTexpr(fi, depth+1, allowNamed)}
		}
	}
	return &iTexpr{Tag: 0, Base: r.intn(9)}
}

// resolve a type expression to (kind) for choosing a default: 0 bool 1 int 2 double 3 string 4 enum (ref text) 5 other
func (g *igen) resolve(fi int, t *iTexpr, fuel int) (kind int, enumRef string, enumFile int) {
	if fuel == 0 {
		return 5, "", 0
	}
	switch t.Tag {
	case 0:
		switch t.Base {
		case 0:
			return 0, "", 0
		case 1, 2, 3, 4, 5:
			return 1, "", 0
		case 6:
			return 2, "", 0
		case 7, 8:
			return 3, "", 0
		}
		return 5, "", 0
	case 4:
		f := g.prog[fi]
		pkg, nm := "", t.Name
		if i := strings.LastIndex(nm, "."); i >= 0 {
			pkg, nm = nm[:i], nm[i+1:]
		}
		tf, tfi := f, fi
		if pkg != "" {
			for _, inc := range f.Includes {
				if inc.Alias == pkg {
					tf, tfi = g.prog[inc.Idx], inc.Idx
				}
			}
		}
		for _, td := range tf.Typedefs {
			if td.N == nm {
				return g.resolve(tfi, td.T, fuel-1)
			}
		}
		for _, e := range tf.Enums {
			if e.Name == nm {
				return 4, nm, tfi
			}
		}
	}
	return 5, "", 0
}

var longLens = []int{1, 63, 64, 65, 128, 300}

// identifier of one of the boundary lengths around the 64-byte mark
func longIdent(r *rng) string {
	n := longLens[r.intn(len(longLens))]
	b := make([]byte, n)
	c := identAlpha[10+r.intn(53)]
	for i := range b {
		b[i] = c
	}
	if n > 1 {
		b[n-1] = identAlpha[10+r.intn(53)]
		b[r.intn(n)] = identAlpha[10+r.intn(53)]
	}
	return string(b)
}

// what a constant finally denotes, following const -> const and const -> enum value chains through includes:
// kind 1 integer literal, 3 string literal, 4 value of enum (name, declaring file), 0 anything else
func (g *igen) constKind(fi int, v iConst, fuel int) (kind int, enumName string, enumFile int) {
	if fuel == 0 {
		return 0, "", 0
	}
	switch v.Tag {
	case 1:
		return 1, "", 0
	case 3:
		return 3, "", 0
	case 4:
		f := g.prog[fi]
		parts := strings.Split(v.S, ".")
		tf, tfi := f, fi
		if len(parts) >= 2 {
			for _, inc := range f.Includes {
				if inc.Alias == parts[0] {
					tf, tfi = g.prog[inc.Idx], inc.Idx
					parts = parts[1:]
					break
				}
			}
		}
		if len(parts) == 1 {
			for _, c := range tf.Consts {
				if c.N == parts[0] {
					return g.constKind(tfi, c.V, fuel-1)
				}
			}
		}
		if len(parts) == 2 {
			for _, e := range tf.Enums {
				if e.Name == parts[0] {
					return 4, e.Name, tfi
				}
			}
		}
	}
	return 0, "", 0
}

// references (as written in file fi) to the constants of fi and of its includes that denote the wanted kind
func (g *igen) constRefs(fi int, kind int, enumName string, enumFile int) []string {
	var out []string
	add := func(prefix string, ti int) {
		for _, c := range g.prog[ti].Consts {
			k, en, ef := g.constKind(ti, c.V, 6)
			if k == kind && (kind != 4 || (en == enumName && ef == enumFile)) {
				out = append(out, prefix+c.N)
			}
		}
	}
	add("", fi)
	for _, inc := range g.prog[fi].Includes {
		if !(g.hasB && inc.Idx == g.baseIx) {
			add(inc.Alias+".", inc.Idx)
		}
	}
	return out
}

var doubleTable = []struct {
	T string
	B uint64
}{{"1.5", 0x3ff8000000000000}, {"-2.25", 0xc002000000000000}, {"0.5", 0x3fe0000000000000}, {"100.0", 0x4059000000000000}, {"0.0", 0}}

func (g *igen) genDefault(fi int, t *iTexpr) iConst {
	r := g.r
	kind, enumName, efi := g.resolve(fi, t, 6)
	f := g.prog[fi]
	switch kind {
	case 0:
		if r.chance(12) {
			return iConst{Tag: 1, I: int64(r.intn(2))} // int literal on a bool field
		}
		return iConst{Tag: 4, S: []string{"true", "false"}[r.intn(2)]}
	case 1:
		if c := g.constRefs(fi, 1, "", 0); len(c) > 0 && r.chance(40) {
			return iConst{Tag: 4, S: c[r.intn(len(c))]}
		}
		return iConst{Tag: 1, I: int64(r.intn(200)) - 100}
	case 2:
		if r.chance(20) {
			return iConst{Tag: 1, I: int64(r.intn(9)) - 3} // int literal on a double field
		}
		d := doubleTable[r.intn(len(doubleTable))]
		return iConst{Tag: 2, Bits: d.B, Text: d.T}
	case 3:
		if c := g.constRefs(fi, 3, "", 0); len(c) > 0 && r.chance(40) {
			return iConst{Tag: 4, S: c[r.intn(len(c))]}
		}
		return iConst{Tag: 3, S: []string{"", "x", "hello world", "a-b_c"}[r.intn(4)]}
	case 4:
		if c := g.constRefs(fi, 4, enumName, efi); len(c) > 0 && r.chance(35) {
			return iConst{Tag: 4, S: c[r.intn(len(c))]}
		}
		var e *iEnum
		for _, x := range g.prog[efi].Enums {
			if x.Name == enumName {
				e = x
			}
		}
		if e == nil || len(e.Vals) == 0 {
			return iConst{}
		}
		v := e.Vals[r.intn(len(e.Vals))]
		if r.chance(25) {
			return iConst{Tag: 1, I: v.V}
		}
		prefix := ""
		if efi != fi {
			for _, inc := range f.Includes {
				if inc.Idx == efi {
					prefix = inc.Alias + "."
				}
			}
			if prefix == "" {
				return iConst{Tag: 1, I: v.V} // enum reached through a typedef of a file that is not included here
			}
		}
		return iConst{Tag: 4, S: prefix + enumName + "." + v.N}
	}
	if t.Tag == 1 && r.chance(30) {
		return iConst{Tag: 5, Text: "[]"}
	}
	return iConst{}
}

func (g *igen) genAnnos(name string, root bool) []iAnno {
	r := g.r
	var as []iAnno
	add := func(a iAnno) {
		// thriftgo merges annotations with the same key into one annotation with several values
		for i := range as {
			if as[i].Key == a.Key {
				if a.Text == "" && as[i].Text == "" {
					as[i].Vals = append(as[i].Vals, a.Vals...)
				}
				return
			}
		}
		as = append(as, a)
	}
	if r.chance(30) {
		n := 1 + r.intn(2)
		for i := 0; i < n; i++ {
			switch x := r.intn(100); {
			case x < 45:
				v := []string{name + "_k", "K" + name, name, "alias", "a.b", "x-y", "ключ", "", "Z", longIdent(r)}[r.intn(10)]
				add(iAnno{Key: "api.key", Vals: []string{v}})
			case x < 70:
				v := []string{name + "_j", "json" + name, "j"}[r.intn(3)]
				add(iAnno{Key: "go.tag", Vals: []string{v}, Text: "'json:\"" + v + ",omitempty\" form:\"q\"'"})
			case x < 85:
				add(iAnno{Key: "my.anno", Vals: []string{"v"}})
			case x < 90:
				if len(as) == 0 {
					add(iAnno{Key: "api.query", Vals: []string{name}})
				}
			case x < 94:
				add(iAnno{Key: "dynamicgo.deprecated", Vals: []string{"true"}})
			case x < 97:
				add(iAnno{Key: "api.none", Vals: []string{"true"}})
			default:
				if root {
					dup := false
					for _, a := range as {
						if a.Key == "api.body" {
							dup = true
						}
					}
					if !dup {
						as = append(as, iAnno{Key: "api.body", Vals: []string{name + "_body"}})
					}
				}
			}
		}
	}
	return as
}

func (g *igen) genFields(fi int, n int, kind int, root bool, negOK bool) []*iField {
	r := g.r
	used := map[int]bool{}
	usedN := map[string]bool{}
	var fs []*iField
	for i := 0; i < n; i++ {
		id := 0
		for {
			if r.chance(70) {
				id = 1 + r.intn(12)
			} else if r.chance(50) {
				id = int(fieldIDPool[r.intn(len(fieldIDPool))])
			} else {
				id = r.intn(32768)
			}
			if !used[id] {
				break
			}
		}
		used[id] = true
		name := fieldNamePool[r.intn(len(fieldNamePool))]
		if r.chance(4) {
			name = longIdent(r)
		}
		for usedN[name] {
			name = g.fresh("f")
		}
		usedN[name] = true
		f := &iField{ID: id, Name: name, T: g.genTexpr(fi, 0, true)}
		if kind != 1 {
			f.Req = r.intn(3)
			if r.chance(35) {
				f.Def = g.genDefault(fi, f.T)
			}
		}
		f.Annos = g.genAnnos(name, root)
		fs = append(fs, f)
	}
	if negOK && len(fs) > 0 {
		fs[r.intn(len(fs))].ID = -1 - r.intn(5)
	}
	return fs
}

func (g *igen) genFile(path string, includes []int, nsvc int, main bool) *iFile {
	r := g.r
	f := &iFile{Path: path}
	fi := len(g.prog)
	g.prog = append(g.prog, f)
	if r.chance(60) {
		f.NS = append(f.NS, [2]string{"go", g.fresh("pkg")})
		if r.chance(30) {
			f.NS = append(f.NS, [2]string{"py", "py.mod"})
		}
	}
	for _, ix := range includes {
		p := g.prog[ix].Path
		base := p[strings.LastIndex(p, "/")+1:]
		f.Includes = append(f.Includes, struct {
			Alias string
			Idx   int
		}{strings.TrimSuffix(base, ".thrift"), ix})
	}
	for i, n := 0, r.intn(3); i < n; i++ {
		e := &iEnum{Name: g.fresh("E")}
		for j, m := 0, 1+r.intn(3); j < m; j++ {
			e.Vals = append(e.Vals, struct {
				N string
				V int64
			}{g.fresh("V"), int64(j*3 + r.intn(3))})
		}
		f.Enums = append(f.Enums, e)
	}
	for i, n := 0, r.intn(3); i < n; i++ {
		if r.bool() {
			f.Consts = append(f.Consts, struct {
				N string
				T *iTexpr
				V iConst
			}{g.fresh("KI"), &iTexpr{Tag: 0, Base: 4}, iConst{Tag: 1, I: int64(r.intn(1000))}})
		} else {
			f.Consts = append(f.Consts, struct {
				N string
				T *iTexpr
				V iConst
			}{g.fresh("KS"), &iTexpr{Tag: 0, Base: 7}, iConst{Tag: 3, S: "c" + g.fresh("")}})
		}
	}
	// constants whose value is another constant or an enum value, within the file and across includes; constants of the
	// including file named like a constant of an included file
	type cdecl = struct {
		N string
		T *iTexpr
		V iConst
	}
	hasConst := func(n string) bool {
		for _, c := range f.Consts {
			if c.N == n {
				return true
			}
		}
		return false
	}
	for i, n := 0, r.intn(4); i < n; i++ {
		switch r.intn(5) {
		case 0: // const -> const of the same file
			if len(f.Consts) > 0 {
				c := f.Consts[r.intn(len(f.Consts))]
				f.Consts = append(f.Consts, cdecl{g.fresh("KC"), c.T, iConst{Tag: 4, S: c.N}})
			}
		case 1: // const -> const of an included file
			for _, inc := range f.Includes {
				d := g.prog[inc.Idx]
				if len(d.Consts) > 0 && !(g.hasB && inc.Idx == g.baseIx) {
					c := d.Consts[r.intn(len(d.Consts))]
					t := c.T
					if t.Tag == 4 && !strings.Contains(t.Name, ".") {
						t = &iTexpr{Tag: 4, Name: inc.Alias + "." + t.Name}
					} else if t.Tag == 4 {
						continue // a type of a file two includes away cannot be named here
					}
					f.Consts = append(f.Consts, cdecl{g.fresh("KQ"), t, iConst{Tag: 4, S: inc.Alias + "." + c.N}})
					break
				}
			}
		case 2: // const -> enum value of the same file
			if len(f.Enums) > 0 {
				e := f.Enums[r.intn(len(f.Enums))]
				f.Consts = append(f.Consts, cdecl{g.fresh("KE"), &iTexpr{Tag: 4, Name: e.Name}, iConst{Tag: 4, S: e.Name + "." + e.Vals[r.intn(len(e.Vals))].N}})
			}
		case 3: // const -> enum value of an included file
			for _, inc := range f.Includes {
				d := g.prog[inc.Idx]
				if len(d.Enums) > 0 {
					e := d.Enums[r.intn(len(d.Enums))]
					f.Consts = append(f.Consts, cdecl{g.fresh("KF"), &iTexpr{Tag: 4, Name: inc.Alias + "." + e.Name},
						iConst{Tag: 4, S: inc.Alias + "." + e.Name + "." + e.Vals[r.intn(len(e.Vals))].N}})
					break
				}
			}
		default: // same name as a literal constant of an included file, another value
			for _, inc := range f.Includes {
				d := g.prog[inc.Idx]
				if len(d.Consts) == 0 {
					continue
				}
				c := d.Consts[r.intn(len(d.Consts))]
				if hasConst(c.N) || c.T.Tag != 0 {
					continue
				}
				if c.T.Base == 7 {
					f.Consts = append(f.Consts, cdecl{c.N, c.T, iConst{Tag: 3, S: "shadow" + g.fresh("")}})
				} else {
					f.Consts = append(f.Consts, cdecl{c.N, c.T, iConst{Tag: 1, I: int64(5000 + r.intn(1000))}})
				}
				break
			}
		}
	}
	// struct names first (so that fields may refer to later structs: self / mutual recursion)
	ns := 1 + r.intn(4)
	for i := 0; i < ns; i++ {
		kind := 0
		if r.chance(15) {
			kind = 1
		}
		f.Structs = append(f.Structs, &iStruct{Kind: kind, Name: g.fresh("S")})
	}
	if main || r.chance(40) {
		f.Structs = append(f.Structs, &iStruct{Kind: 2, Name: g.fresh("X")})
	}
	for i, n := 0, r.intn(4); i < n; i++ {
		// typedef chains: may refer to earlier typedefs, structs, enums, included names
		f.Typedefs = append(f.Typedefs, struct {
			N string
			T *iTexpr
		}{g.fresh("T"), g.genTexpr(fi, 0, true)})
	}
	for _, s := range f.Structs {
		s.Fields = g.genFields(fi, r.intn(6), s.Kind, false, false)
		if r.chance(15) {
			s.Annos = []iAnno{{Key: "my.struct", Vals: []string{"x"}}}
		}
	}
	// services
	for i := 0; i < nsvc; i++ {
		sv := &iSvc{Name: g.fresh("Svc")}
		nfn := 1 + r.intn(3)
		if r.chance(12) {
			nfn = 0 // a service with an empty body (it may still inherit)
		}
		for j, m := 0, nfn; j < m; j++ {
			fn := &iFunc{Name: g.fresh("M")}
			switch x := r.intn(10); {
			case x < 2:
				fn.Ret = &iTexpr{Tag: 0, Base: 9}
			case x < 7:
				fn.Ret = g.structRef(fi, false)
			default:
				fn.Ret = g.genTexpr(fi, 0, true)
			}
			var at *iTexpr
			if r.chance(75) {
				at = g.structRef(fi, false)
			} else {
				at = g.genTexpr(fi, 0, true)
			}
			aid := 1
			if r.chance(20) {
				aid = 1 + r.intn(300)
			}
			fn.Args = []*iField{{ID: aid, Name: []string{"req", "arg", "r"}[r.intn(3)], T: at}}
			if r.chance(8) {
				fn.Args = append(fn.Args, &iField{ID: aid + 1, Name: "second", T: &iTexpr{Tag: 0, Base: 4}})
			}
			if r.chance(40) {
				if x := g.structRef(fi, true); x != nil {
					fn.Throws = []*iField{{ID: 1 + r.intn(3), Name: "err", T: x}}
					if r.chance(10) {
						fn.Throws = append(fn.Throws, &iField{ID: 9, Name: "err2", T: x})
					}
				}
			}
			if fn.Ret.Tag == 0 && fn.Ret.Base == 9 && len(fn.Throws) == 0 && r.chance(30) {
				fn.Oneway = true
			}
			sv.Funcs = append(sv.Funcs, fn)
		}
		f.Svcs = append(f.Svcs, sv)
	}
	return f
}

func (g *igen) structRef(fi int, exc bool) *iTexpr {
	var c []namedRef
	for _, v := range g.visible(fi) {
		if v.Cat == 0 && v.Exc == exc {
			c = append(c, v)
		}
	}
	if len(c) == 0 {
		if exc {
			return nil
		}
		return &iTexpr{Tag: 0, Base: 7}
	}
	return &iTexpr{Tag: 4, Name: c[g.r.intn(len(c))].Text}
}

func genProgram(r *rng) (*igen, iOpts) {
	g := &igen{r: r}
	// includes: b.thrift (leaf), a.thrift (includes b), base.thrift
	nInc := r.intn(3)
	var incs []int
	if nInc >= 1 {
		// index 0 must be main: build includes first into a scratch list, then reorder
	}
	// build in dependency order, then move main to the front
	var order []*iFile
	g.prog = nil
	placeholder := &iFile{}
	g.prog = append(g.prog, placeholder) // slot 0 reserved for main
	if nInc == 2 {
		b := g.genFile("/x/b.thrift", nil, r.intn(2), false)
		order = append(order, b)
	}
	if nInc >= 1 {
		var sub []int
		if nInc == 2 {
			sub = []int{1}
		}
		g.genFile("/x/a.thrift", sub, r.intn(2), false)
		incs = append(incs, len(g.prog)-1)
		if nInc == 2 && r.chance(50) {
			incs = append(incs, 1)
		}
		// a service in a.thrift may extend b's service
		a := g.prog[len(g.prog)-1]
		if nInc == 2 && len(a.Svcs) > 0 && len(g.prog[1].Svcs) > 0 && r.chance(60) {
			a.Svcs[0].Extends = "b." + g.prog[1].Svcs[0].Name
		}
	}
	if r.chance(35) {
		bf := &iFile{Path: "/x/base.thrift"}
		bf.Structs = []*iStruct{
			{Name: "Base", Fields: []*iField{{ID: 1, Name: "LogID", T: &iTexpr{Tag: 0, Base: 7}}, {ID: 2, Name: "Caller", T: &iTexpr{Tag: 0, Base: 7}}}},
			{Name: "BaseResp", Fields: []*iField{{ID: 1, Name: "StatusMessage", T: &iTexpr{Tag: 0, Base: 7}}, {ID: 2, Name: "StatusCode", T: &iTexpr{Tag: 0, Base: 4}}}},
		}
		g.prog = append(g.prog, bf)
		g.hasB, g.baseIx = true, len(g.prog)-1
		incs = append(incs, g.baseIx)
	}
	// main file: generated last (it may refer to everything), stored at index 0
	saved := g.prog
	g.prog = append([]*iFile{}, saved...)
	mainF := g.genFile("/x/main.thrift", incs, 1+r.intn(3), true)
	g.prog = g.prog[:len(g.prog)-1]
	g.prog[0] = mainF
	// structs of main were generated while main sat at the end of the list: references are by name, nothing to fix.
	// root-only request / response structs (thrift base fields, api.body)
	var withFuncs []*iSvc
	for _, sv := range mainF.Svcs {
		if len(sv.Funcs) > 0 {
			withFuncs = append(withFuncs, sv)
		}
	}
	if len(withFuncs) > 0 && r.chance(50) {
		sv := withFuncs[r.intn(len(withFuncs))]
		fn := sv.Funcs[r.intn(len(sv.Funcs))]
		rq := &iStruct{Name: g.fresh("RootReq")}
		rq.Fields = g.genFields(0, 1+r.intn(4), 0, true, r.chance(6))
		if g.hasB && r.chance(70) {
			rq.Fields = append(rq.Fields, &iField{ID: freeID(rq.Fields, 255), Name: "Base", T: &iTexpr{Tag: 4, Name: "base.Base"}, Req: r.intn(3)})
		}
		mainF.Structs = append(mainF.Structs, rq)
		fn.Args[0].T = &iTexpr{Tag: 4, Name: rq.Name}
		if r.chance(60) && !fn.Oneway {
			rs := &iStruct{Name: g.fresh("RootResp")}
			rs.Fields = g.genFields(0, 1+r.intn(3), 0, true, false)
			if g.hasB && r.chance(70) {
				rs.Fields = append(rs.Fields, &iField{ID: freeID(rs.Fields, 255), Name: "BaseResp", T: &iTexpr{Tag: 4, Name: "base.BaseResp"}, Req: r.intn(3)})
			}
			mainF.Structs = append(mainF.Structs, rs)
			fn.Ret = &iTexpr{Tag: 4, Name: rs.Name}
		}
	}
	// two different entities with the same unqualified name in two files of the include graph (also across a diamond:
	// main -> a -> b and main -> b)
	collided := r.chance(40)
	if collided {
		for _, inc := range mainF.Includes {
			if r.chance(60) {
				g.collide(0, inc.Idx)
			}
		}
		for fi := 1; fi < len(g.prog); fi++ {
			for _, inc := range g.prog[fi].Includes {
				if r.chance(50) {
					g.collide(fi, inc.Idx)
				}
			}
		}
	}
	// service inheritance
	if len(mainF.Svcs) > 0 {
		last := mainF.Svcs[len(mainF.Svcs)-1]
		done := false
		for _, inc := range mainF.Includes {
			if f := g.prog[inc.Idx]; len(f.Svcs) > 0 && r.chance(60) && !done {
				last.Extends = inc.Alias + "." + f.Svcs[0].Name
				done = true
			}
		}
		if !done && len(mainF.Svcs) > 1 && r.chance(25) {
			last.Extends = mainF.Svcs[0].Name // same-file inheritance
		}
	}
	if r.chance(35) {
		g.addChain()
	}
	o := iOpts{MapWay: r.intn(3), FnMode: []int{0, 0, 1, 2}[r.intn(4)], SvcMode: r.intn(3), Enum64: r.bool(), OptBitmap: r.bool(),
		UseDefault: r.chance(70), Base: r.bool(), BodyFast: r.bool(), PutNS: r.chance(30), PutFile: r.chance(30)}
	if r.chance(25) {
		o.SvcName = mainF.Svcs[r.intn(len(mainF.Svcs))].Name
	} else if r.chance(3) {
		o.SvcName = "NoSuchService"
	}
	_ = order
	return g, o
}

// ---- same unqualified name in two files of one include graph ---------------------------------------------------------

func (g *igen) eachTexpr(f *iFile, fn func(t *iTexpr)) {
	var walk func(t *iTexpr)
	walk = func(t *iTexpr) {
		if t == nil {
			return
		}
		fn(t)
		walk(t.K)
		walk(t.V)
	}
	for i := range f.Typedefs {
		walk(f.Typedefs[i].T)
	}
	for i := range f.Consts {
		walk(f.Consts[i].T)
	}
	for _, s := range f.Structs {
		for _, fd := range s.Fields {
			walk(fd.T)
		}
	}
	for _, sv := range f.Svcs {
		for _, fn := range sv.Funcs {
			walk(fn.Ret)
			for _, a := range fn.Args {
				walk(a.T)
			}
			for _, a := range fn.Throws {
				walk(a.T)
			}
		}
	}
}

// rename entity old -> nw of file fi: bare references inside fi, qualified ones in the files that include fi
func (g *igen) rename(fi int, old, nw string) {
	f := g.prog[fi]
	for _, s := range f.Structs {
		if s.Name == old {
			s.Name = nw
		}
	}
	for _, e := range f.Enums {
		if e.Name == old {
			e.Name = nw
		}
	}
	for i := range f.Typedefs {
		if f.Typedefs[i].N == old {
			f.Typedefs[i].N = nw
		}
	}
	for gi, h := range g.prog {
		prefix := ""
		if gi != fi {
			prefix = "\x00"
			for _, inc := range h.Includes {
				if inc.Idx == fi {
					prefix = inc.Alias + "."
				}
			}
			if prefix == "\x00" {
				continue
			}
		}
		g.eachTexpr(h, func(t *iTexpr) {
			if t.Tag == 4 && t.Name == prefix+old {
				t.Name = prefix + nw
			}
		})
		fixC := func(c *iConst) {
			if c.Tag == 4 && strings.HasPrefix(c.S, prefix+old+".") {
				c.S = prefix + nw + c.S[len(prefix+old):]
			}
		}
		for _, s := range h.Structs {
			for _, fd := range s.Fields {
				fixC(&fd.Def)
			}
		}
		for i := range h.Consts {
			fixC(&h.Consts[i].V)
		}
	}
}

// give file pi (which includes di) an entity with the name of a struct N of di, make a struct H of di refer to its own N by the
// bare name, and make both `N` (pi's) and `<alias>.H` reachable side by side from every function of the main file
func (g *igen) collide(pi, di int) {
	r := g.r
	P, D := g.prog[pi], g.prog[di]
	alias := ""
	for _, inc := range P.Includes {
		if inc.Idx == di {
			alias = inc.Alias
		}
	}
	if alias == "" || len(D.Structs) == 0 || (g.hasB && di == g.baseIx) {
		return
	}
	N := D.Structs[r.intn(len(D.Structs))]
	H := D.Structs[r.intn(len(D.Structs))]
	for _, x := range append(append([]*iStruct{}, P.Structs...), D.Structs...) {
		_ = x
	}
	// entity of P that takes N's name
	var olds []string
	switch x := r.intn(10); {
	case x < 6:
		for _, s := range P.Structs {
			if !strings.HasPrefix(s.Name, "Root") {
				olds = append(olds, s.Name)
			}
		}
	case x < 8:
		for _, e := range P.Enums {
			olds = append(olds, e.Name)
		}
	default:
		for _, td := range P.Typedefs {
			olds = append(olds, td.N)
		}
	}
	if len(olds) == 0 {
		for _, s := range P.Structs {
			if !strings.HasPrefix(s.Name, "Root") {
				olds = append(olds, s.Name)
			}
		}
	}
	if len(olds) == 0 {
		return
	}
	for _, s := range P.Structs {
		if s.Name == N.Name {
			return // already collides
		}
	}
	for _, e := range P.Enums {
		if e.Name == N.Name {
			return
		}
	}
	for _, td := range P.Typedefs {
		if td.N == N.Name {
			return
		}
	}
	g.rename(pi, olds[r.intn(len(olds))], N.Name)
	H.Fields = append(H.Fields, &iField{ID: freeID(H.Fields, 20+r.intn(5)), Name: g.fresh("inner"), T: &iTexpr{Tag: 4, Name: N.Name}, Req: 2})
	mix := &iStruct{Name: g.fresh("Mix")}
	own := &iField{ID: 1, Name: "own", T: &iTexpr{Tag: 4, Name: N.Name}, Req: 2}
	dep := &iField{ID: 2, Name: "dep", T: &iTexpr{Tag: 4, Name: alias + "." + H.Name}, Req: 2}
	if r.bool() {
		mix.Fields = []*iField{own, dep}
	} else {
		mix.Fields = []*iField{dep, own}
	}
	P.Structs = append(P.Structs, mix)
	// reachability from the main file
	ref := mix.Name
	if pi != 0 {
		ma := ""
		for _, inc := range g.prog[0].Includes {
			if inc.Idx == pi {
				ma = inc.Alias
			}
		}
		if ma == "" {
			return
		}
		ref = ma + "." + mix.Name
	}
	M := g.prog[0]
	touched := map[string]bool{}
	for _, sv := range M.Svcs {
		for _, fn := range sv.Funcs {
			for _, t := range []*iTexpr{fn.Args[0].T, fn.Ret} {
				if t.Tag != 4 || strings.Contains(t.Name, ".") || touched[t.Name] {
					continue
				}
				for _, st := range M.Structs {
					if st.Name == t.Name && st != mix {
						touched[t.Name] = true
						st.Fields = append(st.Fields, &iField{ID: freeID(st.Fields, 30+r.intn(5)), Name: g.fresh("mix"), T: &iTexpr{Tag: 4, Name: ref}, Req: 2})
					}
				}
			}
		}
	}
	if len(touched) == 0 {
		for _, sv := range M.Svcs {
			for _, fn := range sv.Funcs {
				fn.Args[0].T = &iTexpr{Tag: 4, Name: ref}
			}
		}
	}
}

// `extends` chain of 2-3 cross-file hops: main.Last extends m1.X, m1.X extends m2.Y [, m2.Y extends m3.Z].  The include lists of the
// files differ in order and length (the index of the base file in the include list of the extending file is what thriftgo
// records), unrelated includes hold services with the same names as the chain's (decoys with their own functions), and the
// graph may contain diamonds (main including a file further up the chain).
func (g *igen) addChain() {
	r := g.r
	mainF := g.prog[0]
	if len(mainF.Svcs) == 0 {
		return
	}
	hops := 2 + r.intn(2)
	names := make([]string, hops)
	for i := range names {
		names[i] = g.fresh("Chain")
	}
	leaf := func(path string, svcNames []string) int {
		f := &iFile{Path: path}
		st := &iStruct{Name: g.fresh("CS")}
		st.Fields = []*iField{{ID: 1, Name: g.fresh("cf"), T: &iTexpr{Tag: 0, Base: r.intn(9)}}}
		f.Structs = []*iStruct{st}
		for _, sn := range svcNames {
			sv := &iSvc{Name: sn}
			for j, m := 0, r.intn(3); j < m; j++ { // possibly an empty body, at any position of the chain
				sv.Funcs = append(sv.Funcs, &iFunc{Name: g.fresh("CM"), Ret: &iTexpr{Tag: 4, Name: st.Name}, Args: []*iField{{ID: 1, Name: "req", T: &iTexpr{Tag: 4, Name: st.Name}}}})
			}
			f.Svcs = append(f.Svcs, sv)
		}
		g.prog = append(g.prog, f)
		return len(g.prog) - 1
	}
	include := func(fi, di int, front bool) {
		f := g.prog[fi]
		p := g.prog[di].Path
		inc := struct {
			Alias string
			Idx   int
		}{strings.TrimSuffix(p[strings.LastIndex(p, "/")+1:], ".thrift"), di}
		for _, x := range f.Includes {
			if x.Idx == di {
				return
			}
		}
		if front {
			f.Includes = append([]struct {
				Alias string
				Idx   int
			}{inc}, f.Includes...)
		} else {
			f.Includes = append(f.Includes, inc)
		}
	}
	tag := g.fresh("")
	// decoy files: unrelated includes holding services named like the chain's
	d1 := leaf("/x/u"+tag+".thrift", append([]string{}, names...))
	d2 := leaf("/x/v"+tag+".thrift", append([]string{}, names[r.intn(len(names)):]...))
	idx := make([]int, hops)
	for i := range idx {
		idx[i] = leaf(fmt.Sprintf("/x/m%d%s.thrift", i+1, tag), []string{names[i]})
	}
	// hop i+1 -> hop i+2, with padding includes before / after so that the indices differ from file to file
	for i := 0; i+1 < hops; i++ {
		if r.bool() {
			include(idx[i], d1, r.bool())
		}
		include(idx[i], idx[i+1], r.bool())
		if r.bool() {
			include(idx[i], d2, r.bool())
		}
		if i+2 < hops && r.chance(40) {
			include(idx[i], idx[i+2], r.bool()) // diamond inside the chain
		}
		a := ""
		for _, x := range g.prog[idx[i]].Includes {
			if x.Idx == idx[i+1] {
				a = x.Alias
			}
		}
		g.prog[idx[i]].Svcs[0].Extends = a + "." + names[i+1]
	}
	// main -> hop 1; main may also include decoys and files further up the chain, in any position
	if r.bool() {
		include(0, d1, r.bool())
	}
	if r.chance(40) {
		include(0, idx[hops-1], r.bool())
	}
	include(0, idx[0], r.bool())
	if r.bool() {
		include(0, d2, r.bool())
	}
	a := ""
	for _, x := range mainF.Includes {
		if x.Idx == idx[0] {
			a = x.Alias
		}
	}
	last := mainF.Svcs[len(mainF.Svcs)-1]
	if r.chance(25) && len(mainF.Svcs) > 1 {
		// one more same-file hop in front: Last extends First (same file), First extends the chain
		last.Extends = mainF.Svcs[0].Name
		mainF.Svcs[0].Extends = a + "." + names[0]
	} else {
		last.Extends = a + "." + names[0]
	}
}

func freeID(fs []*iField, id int) int {
	for {
		used := false
		for _, f := range fs {
			if f.ID == id {
				used = true
			}
		}
		if !used {
			return id
		}
		id++
	}
}

// witness family of finding 1408 (fixed by d1874f3, kept as a regression case): main and a.thrift both declare struct N; `service Main extends a.Base`; the inherited function's bare N
func c14Inherit1408(r *rng) {
	g := &igen{r: r}
	n := g.fresh("Item")
	mk := func(tag string) *iStruct {
		st := &iStruct{Name: n}
		for i, k := 0, 1+r.intn(3); i < k; i++ {
			st.Fields = append(st.Fields, &iField{ID: 1 + i + r.intn(2)*10, Name: g.fresh(tag), T: &iTexpr{Tag: 0, Base: r.intn(9)}, Req: r.intn(3)})
		}
		return st
	}
	a := &iFile{Path: "/x/a.thrift", Structs: []*iStruct{mk("dep")}}
	a.Svcs = []*iSvc{{Name: "Base", Funcs: []*iFunc{{Name: "Ping", Ret: &iTexpr{Tag: 0, Base: 9}, Args: []*iField{{ID: 1, Name: "req", T: &iTexpr{Tag: 4, Name: n}}}}}}}
	m := &iFile{Path: "/x/main.thrift", Structs: []*iStruct{mk("own")}}
	m.Includes = append(m.Includes, struct {
		Alias string
		Idx   int
	}{"a", 1})
	m.Svcs = []*iSvc{{Name: "Main", Extends: "a.Base", Funcs: []*iFunc{{Name: "Get", Ret: &iTexpr{Tag: 0, Base: 9}, Args: []*iField{{ID: 1, Name: "req", T: &iTexpr{Tag: 4, Name: n}}}}}}}
	g.prog = []*iFile{m, a}
	o := iOpts{MapWay: r.intn(3), FnMode: r.intn(2), SvcMode: r.intn(3), OptBitmap: r.bool()}
	c14RunIDL(r, g.prog, o, 1408, false)
}

const c14Depth = 3

var debugC14 = os.Getenv("C14_DEBUG") != ""
var debugOut = os.Stderr

func c14IDL(r *rng) {
	g, o := genProgram(r)
	c14RunIDL(r, g.prog, o, 1405, true)
}

func c14RunIDL(r *rng, prog []*iFile, o iOpts, checkID int, sweeps bool) {
	includes := map[string]string{}
	for i, f := range prog {
		if i > 0 {
			includes[f.Path] = f.text(prog)
		}
	}
	mainText := prog[0].text(prog)
	opts := thrift.Options{MapFieldWay: meta.MapFieldWay(o.MapWay), ParseEnumAsInt64: o.Enum64, SetOptionalBitmap: o.OptBitmap,
		UseDefaultValue: o.UseDefault, ParseFunctionMode: meta.ParseFunctionMode(o.FnMode), ParseServiceMode: meta.ParseServiceMode(o.SvcMode),
		ServiceName: o.SvcName, EnableThriftBase: o.Base, ApiBodyFastPath: o.BodyFast, PutNameSpaceToAnnotation: o.PutNS, PutThriftFilenameToAnnotation: o.PutFile}
	var svc *thrift.ServiceDescriptor
	var err error
	ok, _ := noPanic(func() {
		svc, err = opts.NewDescritorFromContent(context.Background(), prog[0].Path, mainText, includes, false)
	})
	if debugC14 {
		fmt.Fprintf(debugOut, "=== case %d opts %+v\n%s", out.count, o, mainText)
		for p, x := range includes {
			fmt.Fprintf(debugOut, "--- %s\n%s", p, x)
		}
	}
	var t toks
	t.opts(o)
	t.program(prog)
	t.i(c14Depth)
	var seen []*thrift.TypeDescriptor
	switch {
	case !ok:
		t.i(2)
	case err != nil:
		t.i(1)
		if debugC14 {
			fmt.Fprintf(debugOut, "PARSE ERROR %v\n%s\n", err, mainText)
		}
	default:
		t.i(0)
		dumpService(&t, svc, c14Depth, &seen)
	}
	out.emit(checkID, t...)
	if checkID == 1405 || checkID == 1408 {
		out.emit(1409, t...) // the same case judged by the transcription of the compiler (IdlParse.parse)
	}
	// lookup sweeps on (a sample of) the struct descriptors reached by the dump
	if sweeps && len(seen) > 0 {
		done := map[*thrift.StructDescriptor]bool{}
		for k := 0; k < 2 && k < len(seen); k++ {
			d := seen[r.intn(len(seen))]
			if done[d.Struct()] || len(d.Struct().Fields()) == 0 {
				continue
			}
			done[d.Struct()] = true
			c14Sweep(r, d, o.MapWay, nil, 3, true)
		}
	}
}
