//go:build verif

package main

import (
	"context"
	"fmt"

	"github.com/cloudwego/dynamicgo/meta"
	"github.com/cloudwego/dynamicgo/thrift"
	"github.com/cloudwego/dynamicgo/thrift/generic"
)

func init() { generators["C11"] = genC11 }

// error class of a dynamicgo error: 0 nil, 1 unknown field, 2 dismatch type, 3 missing required, 4 other
func errClass(e error) int {
	if e == nil {
		return 0
	}
	var code meta.ErrCode
	switch x := e.(type) {
	case meta.Error:
		code = x.Code
	case generic.Node:
		code = x.ErrCode()
	case generic.Value:
		code = x.ErrCode()
	default:
		return 4
	}
	switch code.Behavior() {
	case meta.ErrUnknownField:
		return 1
	case meta.ErrDismatchType:
		return 2
	case meta.ErrMissRequiredField:
		return 3
	}
	return 4
}

// a structural variant of shape t: subset of the fields, some added fields; sub-structs are shared (same *Ty), cloned or varied
func (g *tgen) variant(t *Ty, depth int) *Ty {
	r := g.r
	switch t.K {
	case thrift.STRUCT:
		if r.chance(30) {
			return t // shared descriptor
		}
		g.nname++
		n := &Ty{K: thrift.STRUCT, Name: fmt.Sprintf("S%d", g.nname)}
		g.structs = append(g.structs, n)
		used := map[int16]bool{}
		for _, f := range t.Fields {
			used[f.ID] = true
			if r.chance(22) {
				continue // dropped
			}
			nf := &Fld{ID: f.ID, Name: fmt.Sprintf("f%d_%d", g.nname, f.ID), T: g.variant(f.T, depth+1), Req: f.Req}
			if r.chance(15) {
				nf.Req = r.intn(3)
			}
			n.Fields = append(n.Fields, nf)
		}
		for k := r.intn(3); k > 0; k-- { // added fields
			var id int16
			for {
				id = fieldIDPool[r.intn(len(fieldIDPool))]
				if r.chance(30) {
					id = int16(1 + r.intn(32767))
				}
				if !used[id] {
					break
				}
			}
			used[id] = true
			req := r.intn(3)
			if r.chance(50) {
				req = 0
			}
			n.Fields = append(n.Fields, &Fld{ID: id, Name: fmt.Sprintf("f%d_%d", g.nname, id), T: g.genType(g.maxDepth - 1), Req: req})
		}
		return n
	case thrift.LIST, thrift.SET:
		return &Ty{K: t.K, Elem: g.variant(t.Elem, depth+1)}
	case thrift.MAP:
		return &Ty{K: thrift.MAP, Key: g.variant(t.Key, depth+1), Elem: g.variant(t.Elem, depth+1)}
	}
	return t
}

func (g *tgen) structIndex(t *Ty) int {
	for i, s := range g.structs {
		if s == t {
			return i
		}
	}
	return -1
}

func (g *tgen) tyFields(t *Ty) []string {
	switch t.K {
	case thrift.STRUCT:
		return []string{"n1", fi(g.structIndex(t))}
	case thrift.LIST:
		return append([]string{"n2"}, g.tyFields(t.Elem)...)
	case thrift.SET:
		return append([]string{"n3"}, g.tyFields(t.Elem)...)
	case thrift.MAP:
		return append(append([]string{"n4"}, g.tyFields(t.Key)...), g.tyFields(t.Elem)...)
	}
	return []string{"n0", fi(int(t.K))}
}

func (g *tgen) defsFields() []string {
	out := []string{fi(len(g.structs))}
	for _, s := range g.structs {
		out = append(out, fi(len(s.Fields)))
		for _, f := range s.Fields {
			out = append(out, fi(int(f.ID)), fi(f.Req))
			out = append(out, g.tyFields(f.T)...)
		}
	}
	return out
}

// IDL with a wrapper struct W whose fields 1..n have the root types: all roots come from ONE parseType call, so
// equally named structs are the same *TypeDescriptor in every root (pointer equality as in production, where a
// sub-schema is cut out of the schema it was derived from).
func (g *tgen) idlMulti(roots ...*Ty) string {
	s := "namespace go verif\n"
	for i := len(g.structs) - 1; i >= 0; i-- {
		st := g.structs[i]
		s += "struct " + st.Name + " {\n"
		for _, f := range st.Fields {
			req := ""
			if f.Req == 1 {
				req = "required "
			} else if f.Req == 2 {
				req = "optional "
			}
			s += fmt.Sprintf("  %d: %s%s %s\n", f.ID, req, f.T.idlName(), f.Name)
		}
		s += "}\n"
	}
	s += "struct W {\n"
	for i, r := range roots {
		s += fmt.Sprintf("  %d: optional %s r%d\n", i+1, r.idlName(), i)
	}
	s += "}\nservice Svc { W M(1: W req) }\n"
	return s
}

func parseRoots(idl string, n int, popts thrift.Options) ([]*thrift.TypeDescriptor, error) {
	svc, err := popts.NewDescritorFromContent(context.Background(), "a.thrift", idl, map[string]string{}, false)
	if err != nil {
		return nil, err
	}
	fn := svc.Functions()["M"]
	if fn == nil {
		return nil, fmt.Errorf("no function M")
	}
	w := fn.Request().Struct().FieldById(1).Type()
	var out []*thrift.TypeDescriptor
	for i := 0; i < n; i++ {
		f := w.Struct().FieldById(thrift.FieldID(i + 1))
		if f == nil {
			return nil, fmt.Errorf("no field %d in W", i+1)
		}
		out = append(out, f.Type())
	}
	return out, nil
}

// self-referential shapes: a tree node type and a variant of it (fields dropped / added), each recursive in itself,
// plus a shape whose recursive field keeps pointing to the ORIGINAL node type (shared descriptor below a varied root)
func (g *tgen) recursiveShapes() (from, to *Ty) {
	r := g.r
	mk := func() *Ty {
		g.nname++
		t := &Ty{K: thrift.STRUCT, Name: fmt.Sprintf("S%d", g.nname)}
		g.structs = append(g.structs, t)
		return t
	}
	sc := func() *Ty { return &Ty{K: scalarKinds[r.intn(len(scalarKinds))]} }
	n := mk()
	n.Fields = []*Fld{
		{ID: 1, Name: "v", T: sc(), Req: r.intn(3)},
		{ID: 2, Name: "next", T: n, Req: 2},
		{ID: 3, Name: "kids", T: &Ty{K: thrift.LIST, Elem: n}, Req: r.intn(2) * 2},
		{ID: 64, Name: "m", T: &Ty{K: thrift.MAP, Key: &Ty{K: thrift.STRING}, Elem: n}, Req: 0},
		{ID: 300, Name: "x", T: sc(), Req: 0},
	}
	m := mk()
	rec := m
	if r.chance(35) {
		rec = n // below the root the original (shared) node type
	}
	for _, f := range n.Fields {
		if f.ID != 1 && r.chance(30) {
			continue
		}
		nf := &Fld{ID: f.ID, Name: f.Name, T: f.T, Req: f.Req}
		switch f.ID {
		case 2:
			nf.T = rec
		case 3:
			nf.T = &Ty{K: thrift.LIST, Elem: rec}
			if r.chance(30) {
				nf.T.K = thrift.SET
			}
		case 64:
			nf.T = &Ty{K: thrift.MAP, Key: &Ty{K: thrift.STRING}, Elem: rec}
		}
		m.Fields = append(m.Fields, nf)
	}
	if r.chance(50) {
		m.Fields = append(m.Fields, &Fld{ID: 7, Name: "added", T: sc(), Req: r.intn(2)})
	}
	return n, m
}

// bounded value of a (possibly self-referential) shape
func (g *tgen) genValueBounded(t *Ty, depth int) *Val {
	switch t.K {
	case thrift.STRUCT:
		v := &Val{T: t}
		for _, f := range t.Fields {
			if f.Req != 1 && (g.r.chance(25) || (depth >= 3 && f.T.K != thrift.STRUCT && f.T.isComplexTy())) {
				continue
			}
			if f.T.K == thrift.STRUCT && f.Req != 1 && depth >= 3 {
				continue
			}
			v.FIDs = append(v.FIDs, f.ID)
			v.Fields = append(v.Fields, g.genValueBounded(f.T, depth+1))
		}
		return v
	case thrift.LIST, thrift.SET:
		v := &Val{T: t}
		for n := g.r.intn(3); n > 0; n-- {
			v.Elems = append(v.Elems, g.genValueBounded(t.Elem, depth+1))
		}
		return v
	case thrift.MAP:
		v := &Val{T: t}
		seen := map[string]bool{}
		for n := g.r.intn(3); n > 0; n-- {
			k := g.genValueBounded(t.Key, depth+1)
			kb := string(k.encode(nil))
			if seen[kb] {
				continue
			}
			seen[kb] = true
			v.Keys = append(v.Keys, k)
			v.Elems = append(v.Elems, g.genValueBounded(t.Elem, depth+1))
		}
		return v
	}
	return g.genValue(t, depth)
}

func (t *Ty) isComplexTy() bool {
	return t.K == thrift.STRUCT || t.K == thrift.LIST || t.K == thrift.SET || t.K == thrift.MAP
}

func genC11(r *rng, n int) {
	genC11Thrift(r.fork(), n)
	genC11Proto(r.fork(), n/2)
}

// structs reached only through TWO OR MORE container levels (list<list<S>>, map<string,list<S>>, set<list<S>>,
// map<string,map<string,S>>, list<map<i32,S>>, list<list<list<S>>>): the target differs from the source in S itself
// (fields dropped / added, required and default-requiredness fields among the added ones), so the walker has to descend
// through every container level; a raw copy of such a container is visible as a missing error / missing fill / a
// surviving field
func (g *tgen) deepShapes() (from, to *Ty) {
	r := g.r
	inner := g.genStruct(g.maxDepth)
	if len(inner.Fields) == 0 {
		inner.Fields = append(inner.Fields, &Fld{ID: 1, Name: "only", T: &Ty{K: thrift.I32}, Req: 0})
	}
	innerT := inner
	for try := 0; try < 20 && innerT == inner; try++ {
		innerT = g.variant(inner, 0)
	}
	if innerT != inner && r.chance(60) { // make sure the struct below the containers owes something
		used := map[int16]bool{}
		for _, f := range innerT.Fields {
			used[f.ID] = true
		}
		for _, f := range inner.Fields {
			used[f.ID] = true
		}
		id := int16(20000 + r.intn(100))
		if !used[id] {
			innerT.Fields = append(innerT.Fields, &Fld{ID: id, Name: fmt.Sprintf("owed%d", id), T: &Ty{K: scalarKinds[r.intn(len(scalarKinds))]}, Req: r.intn(2)})
		}
	}
	str := func() *Ty { return &Ty{K: thrift.STRING} }
	shapes := []func(s *Ty) *Ty{
		func(s *Ty) *Ty { return &Ty{K: thrift.LIST, Elem: &Ty{K: thrift.LIST, Elem: s}} },
		func(s *Ty) *Ty { return &Ty{K: thrift.MAP, Key: str(), Elem: &Ty{K: thrift.LIST, Elem: s}} },
		func(s *Ty) *Ty { return &Ty{K: thrift.SET, Elem: &Ty{K: thrift.LIST, Elem: s}} },
		func(s *Ty) *Ty { return &Ty{K: thrift.MAP, Key: str(), Elem: &Ty{K: thrift.MAP, Key: str(), Elem: s}} },
		func(s *Ty) *Ty { return &Ty{K: thrift.LIST, Elem: &Ty{K: thrift.MAP, Key: &Ty{K: thrift.I32}, Elem: s}} },
		func(s *Ty) *Ty { return &Ty{K: thrift.LIST, Elem: &Ty{K: thrift.LIST, Elem: &Ty{K: thrift.LIST, Elem: s}}} },
		func(s *Ty) *Ty { return &Ty{K: thrift.LIST, Elem: s} }, // one level, for contrast
	}
	mk := func(s *Ty, pick []int) *Ty {
		g.nname++
		o := &Ty{K: thrift.STRUCT, Name: fmt.Sprintf("S%d", g.nname)}
		g.structs = append(g.structs, o)
		for i, k := range pick {
			o.Fields = append(o.Fields, &Fld{ID: int16(i + 1), Name: fmt.Sprintf("c%d_%d", g.nname, i+1), T: shapes[k](s), Req: 0})
		}
		o.Fields = append(o.Fields, &Fld{ID: 100, Name: fmt.Sprintf("x%d", g.nname), T: &Ty{K: thrift.I32}, Req: 0})
		return o
	}
	var pick []int
	for k := 2 + r.intn(3); k > 0; k-- {
		pick = append(pick, r.intn(len(shapes)))
	}
	return mk(inner, pick), mk(innerT, pick)
}

func genC11Thrift(r *rng, n int) { genC11ThriftMode(r, n, false) }

func genC11ThriftMode(r *rng, n int, forceDeep bool) {
	nv := n / 6
	if nv < 4 {
		nv = 4
	}
	for vi := 0; vi < nv; vi++ {
		g := newTgen(r.fork())
		g.maxDepth = 3
		g.allowReq = true
		g.structKeys = true
		var vShape, fShape, tShape *Ty
		recursive := r.chance(12) && !forceDeep
		deep := forceDeep || r.chance(12)
		if deep && !recursive {
			fShape, tShape = g.deepShapes()
			vShape = fShape
		} else if recursive {
			fShape, tShape = g.recursiveShapes()
			vShape = fShape
			if r.chance(30) {
				fShape, tShape = tShape, fShape
			}
		} else {
			vShape = g.genStruct(0)
			fShape = g.variant(vShape, 0)
			if fShape == vShape || r.chance(40) {
				fShape = vShape
			}
			tShape = g.variant(fShape, 0)
		}
		if r.chance(12) && !forceDeep {
			tShape = fShape // the identical descriptor
		}
		idl := g.idlMulti(fShape, tShape)
		optBitmap := r.chance(20)
		popts := thrift.Options{SetOptionalBitmap: optBitmap}
		roots, err := parseRoots(idl, 2, popts)
		if err != nil {
			die("generated IDL does not parse: %v\n%s", err, idl)
		}
		shared := 1
		from, to := roots[0], roots[1]
		if r.chance(35) { // descriptors from two separate parses: structurally equal sub-descriptors are not pointer-equal
			roots2, err := parseRoots(idl, 2, popts)
			if err != nil {
				die("second parse: %v", err)
			}
			to = roots2[1]
			shared = 0
		}
		defs := g.defsFields()
		for k := 0; k < 6; k++ {
			var val *Val
			if recursive {
				val = g.genValueBounded(vShape, 0)
			} else {
				val = g.genValue(vShape, 0)
			}
			buf := val.encode(nil)
			bits := r.intn(8)
			opts := &generic.Options{DisallowUnknow: bits&1 != 0, NotCheckRequireNess: bits&2 != 0, WriteDefault: bits&4 != 0, UseNativeSkip: r.chance(20)}
			v := generic.NewValue(from, buf)
			var outb []byte
			var e error
			ec := 0
			if ok, _ := noPanic(func() { outb, e = v.MarshalTo(to, opts) }); !ok {
				ec = 9
			} else {
				ec = errClass(e)
			}
			if optBitmap {
				bits |= 16
			}
			f := append([]string(nil), defs...)
			f = append(f, fi(g.structIndex(fShape)), fi(g.structIndex(tShape)), fi(bits|shared<<3), fx(buf), fi(ec), fx(outb))
			out.emit(1101, f...)
		}
	}
}
