//go:build verif

package main

import (
	"context"
	"fmt"

	"github.com/cloudwego/dynamicgo/meta"
	"github.com/cloudwego/dynamicgo/thrift"
	"github.com/cloudwego/dynamicgo/thrift/generic"
)

func init() { generators["C11"] = genC11 }

// error class of a dynamicgo error: 0 nil, 1 unknown field, 2 dismatch type, 3 missing required, 4 other
func errClass(e error) int {
	if e == nil {
		return 0
	}
	var code meta.ErrCode
	switch x := e.(type) {
	case meta.Error:
		code = x.Code
	case generic.Node:
		code = x.ErrCode()
	case generic.Value:
		code = x.ErrCode()
	default:
		return 4
	}
	switch code.Behavior() {
	case meta.ErrUnknownField:
		return 1
	case meta.ErrDismatchType:
		return 2
	case meta.ErrMissRequiredField:
		return 3
	}
	return 4
}

// a structural variant of shape t: subset of the fields, some added fields; sub-structs are shared (same *Ty), cloned or varied
func (g *tgen) variant(t *Ty, depth int) *Ty {
	r := g.r
	switch t.K {
	case thrift.STRUCT:
		if r.chance(30) {
			return t // shared descriptor
		}
		g.nname++
		n := &Ty{K: thrift.STRUCT, Name: fmt.Sprintf("S%d", g.nname)}
		g.structs = append(g.structs, n)
		used := map[int16]bool{}
		for _, f := range t.Fields {
			used[f.ID] = true
			if r.chance(22) {
				continue // dropped
			}
			nf := &Fld{ID: f.ID, Name: fmt.Sprintf("f%d_%d", g.nname, f.ID), T: g.variant(f.T, depth+1), Req: f.Req}
			if r.chance(15) {
				nf.Req = r.intn(3)
			}
			n.Fields = append(n.Fields, nf)
		}
		for k := r.intn(3); k > 0; k-- { // added fields
			var id int16
			for {
				id = fieldIDPool[r.intn(len(fieldIDPool))]
				if r.chance(30) {
					id = int16(1 + r.intn(32767))
				}
				if !used[id] {
					break
				}
			}
			used[id] = true
			req := r.intn(3)
			if r.chance(50) {
				req = 0
			}
			n.Fields = append(n.Fields, &Fld{ID: id, Name: fmt.Sprintf("f%d_%d", g.nname, id), T: g.genType(g.maxDepth - 1), Req: req})
		}
		return n
	case thrift.LIST, thrift.SET:
		return &Ty{K: t.K, Elem: g.variant(t.Elem, depth+1)}
	case thrift.MAP:
		return &Ty{K: thrift.MAP, Key: g.variant(t.Key, depth+1), Elem: g.variant(t.Elem, depth+1)}
	}
	return t
}

func (g *tgen) structIndex(t *Ty) int {
	for i, s := range g.structs {
		if s == t {
			return i
		}
	}
	return -1
}

func (g *tgen) tyFields(t *Ty) []string {
	switch t.K {
	case thrift.STRUCT:
		return []string{"n1", fi(g.structIndex(t))}
	case thrift.LIST:
		return append([]string{"n2"}, g.tyFields(t.Elem)...)
	case thrift.SET:
		return append([]string{"n3"}, g.tyFields(t.Elem)...)
	case thrift.MAP:
		return append(append([]string{"n4"}, g.tyFields(t.Key)...), g.tyFields(t.Elem)...)
	}
	return []string{"n0", fi(int(t.K))}
}

func (g *tgen) defsFields() []string {
	out := []string{fi(len(g.structs))}
	for _, s := range g.structs {
		out = append(out, fi(len(s.Fields)))
		for _, f := range s.Fields {
			out = append(out, fi(int(f.ID)), fi(f.Req))
			out = append(out, g.tyFields(f.T)...)
		}
	}
	return out
}

func (g *tgen) idlMulti(roots ...*Ty) string {
	s := "namespace go verif\n"
	for i := len(g.structs) - 1; i >= 0; i-- {
		st := g.structs[i]
		s += "struct " + st.Name + " {\n"
		for _, f := range st.Fields {
			req := ""
			if f.Req == 1 {
				req = "required "
			} else if f.Req == 2 {
				req = "optional "
			}
			s += fmt.Sprintf("  %d: %s%s %s\n", f.ID, req, f.T.idlName(), f.Name)
		}
		s += "}\n"
	}
	s += "service Svc {\n"
	for i, r := range roots {
		s += fmt.Sprintf("  %s M%d(1: %s req)\n", r.Name, i, r.Name)
	}
	s += "}\n"
	return s
}

func parseRoots(idl string, n int) ([]*thrift.TypeDescriptor, error) {
	svc, err := thrift.Options{}.NewDescritorFromContent(context.Background(), "a.thrift", idl, map[string]string{}, false)
	if err != nil {
		return nil, err
	}
	var out []*thrift.TypeDescriptor
	for i := 0; i < n; i++ {
		fn := svc.Functions()[fmt.Sprintf("M%d", i)]
		if fn == nil {
			return nil, fmt.Errorf("no function M%d", i)
		}
		out = append(out, fn.Request().Struct().FieldById(1).Type())
	}
	return out, nil
}

func genC11(r *rng, n int) {
	nv := n / 6
	if nv < 4 {
		nv = 4
	}
	for vi := 0; vi < nv; vi++ {
		g := newTgen(r.fork())
		g.maxDepth = 3
		g.allowReq = true
		g.structKeys = true
		vShape := g.genStruct(0)
		fShape := g.variant(vShape, 0)
		if fShape == vShape || r.chance(40) {
			fShape = vShape
		}
		tShape := g.variant(fShape, 0)
		if r.chance(12) {
			tShape = fShape // the identical descriptor
		}
		idl := g.idlMulti(fShape, tShape)
		roots, err := parseRoots(idl, 2)
		if err != nil {
			die("generated IDL does not parse: %v\n%s", err, idl)
		}
		shared := 1
		from, to := roots[0], roots[1]
		if r.chance(35) { // descriptors from two separate parses: structurally equal sub-descriptors are not pointer-equal
			roots2, err := parseRoots(idl, 2)
			if err != nil {
				die("second parse: %v", err)
			}
			to = roots2[1]
			shared = 0
		}
		defs := g.defsFields()
		for k := 0; k < 4; k++ {
			val := g.genValue(vShape, 0)
			buf := val.encode(nil)
			bits := r.intn(8)
			opts := &generic.Options{DisallowUnknow: bits&1 != 0, NotCheckRequireNess: bits&2 != 0, WriteDefault: bits&4 != 0, UseNativeSkip: r.chance(20)}
			v := generic.NewValue(from, buf)
			var outb []byte
			var e error
			ec := 0
			if ok, _ := noPanic(func() { outb, e = v.MarshalTo(to, opts) }); !ok {
				ec = 9
			} else {
				ec = errClass(e)
			}
			f := append([]string(nil), defs...)
			f = append(f, fi(g.structIndex(fShape)), fi(g.structIndex(tShape)), fi(bits|shared<<3), fx(buf), fi(ec), fx(outb))
			out.emit(1101, f...)
		}
	}
}
