//go:build verif

package main

// C17: annotation-aware IDL shapes, HTTP requests with chosen populated sources, value texts.

import (
	"bytes"
	"encoding/base64"
	"encoding/binary"
	"fmt"
	"io"
	"mime/multipart"
	stdh "net/http"
	"net/url"
	"sort"
	"strconv"
	"strings"

	"github.com/cloudwego/dynamicgo/http"
	"github.com/cloudwego/dynamicgo/thrift"
)

// annotation kinds: the numbering of thrift/annotation/http_mapping.go (APIQuery = 1 ...)
const (
	hkQuery = 1 + iota
	hkPath
	hkHeader
	hkCookie
	hkBody
	hkHTTPCode
	hkRawBody
	hkForm
	hkRawURI
	hkNoBodyStruct
)

var hkName = map[int]string{hkQuery: "api.query", hkPath: "api.path", hkHeader: "api.header", hkCookie: "api.cookie", hkBody: "api.body",
	hkHTTPCode: "api.http_code", hkRawBody: "api.raw_body", hkForm: "api.form", hkRawURI: "api.raw_uri", hkNoBodyStruct: "api.no_body_struct"}

var hkKeyed = []int{hkQuery, hkPath, hkHeader, hkCookie, hkForm, hkBody}

type hAnn struct {
	Kind int
	Key  string
}

type hTy struct {
	K      thrift.Type
	Binary bool
	Elem   *hTy
	Key    *hTy
	Name   string
	Fields []*hFld
}

type hFld struct {
	ID   int16
	Name string
	Req  int // 0 default, 1 required, 2 optional
	Anns []hAnn
	T    *hTy
}

type hgen struct {
	r       *rng
	structs []*hTy
	nname   int
	side    int // 0 request, 1 response
	annPct  int
	// spellings strconv.Unquote does not understand (\/ and surrogate-pair escapes). The portable converter unquotes with
	// strconv.Unquote (rejects \/, turns a surrogate pair into two U+FFFD: reported as an observation, C18's subject), so
	// requests generated with this flag are run through the native converter only.
	goUnsafeEsc bool
}

var hScalars = []thrift.Type{thrift.BOOL, thrift.I08, thrift.I16, thrift.I32, thrift.I64, thrift.DOUBLE, thrift.STRING, thrift.STRING}

func (g *hgen) scalar() *hTy {
	i := g.r.intn(len(hScalars))
	t := &hTy{K: hScalars[i]}
	if i == len(hScalars)-1 {
		t.Binary = true
	}
	return t
}

// a struct without any annotation (used below containers)
func (g *hgen) plainStruct() *hTy {
	g.nname++
	t := &hTy{K: thrift.STRUCT, Name: fmt.Sprintf("U%d", g.nname)}
	g.structs = append(g.structs, t)
	n := 1 + g.r.intn(3)
	for i := 0; i < n; i++ {
		t.Fields = append(t.Fields, &hFld{ID: int16(i + 1), Name: fmt.Sprintf("u%d_%d", g.nname, i+1), Req: g.r.intn(3), T: g.scalar()})
	}
	return t
}

func (g *hgen) fieldType(depth int) *hTy {
	switch x := g.r.intn(100); {
	case x < 50:
		return g.scalar()
	case x < 62:
		return &hTy{K: thrift.LIST, Elem: g.scalar()}
	case x < 66:
		return &hTy{K: thrift.SET, Elem: g.scalar()}
	case x < 76:
		k := &hTy{K: thrift.STRING}
		if g.r.chance(35) {
			k = &hTy{K: []thrift.Type{thrift.I32, thrift.I64, thrift.I16}[g.r.intn(3)]}
		}
		return &hTy{K: thrift.MAP, Key: k, Elem: g.scalar()}
	case x < 82:
		return &hTy{K: thrift.LIST, Elem: g.plainStruct()}
	default:
		if depth >= 2 {
			return g.plainStruct()
		}
		return g.annStruct(depth+1, 1+g.r.intn(3))
	}
}

var reqKinds = []int{hkQuery, hkQuery, hkPath, hkHeader, hkHeader, hkCookie, hkForm, hkBody, hkBody, hkRawBody, hkRawURI, hkHTTPCode, hkNoBodyStruct}
var respKinds = []int{hkHeader, hkHeader, hkHeader, hkCookie, hkCookie, hkHTTPCode, hkRawBody, hkQuery, hkBody, hkRawURI, hkNoBodyStruct}

func (g *hgen) anns(f *hFld) {
	if !g.r.chance(g.annPct) {
		return
	}
	if g.side == 1 && f.T.K == thrift.STRUCT {
		return // response side: struct members are reached through the nested level, not mapped as a whole
	}
	n := 1
	if g.r.chance(55) {
		n = 2 + g.r.intn(2)
	}
	pool := reqKinds
	if g.side == 1 {
		pool = respKinds
	}
	used := map[int]bool{}
	for i := 0; i < n; i++ {
		k := pool[g.r.intn(len(pool))]
		if f.T.K == thrift.STRUCT && g.side == 0 && g.r.chance(25) {
			k = hkNoBodyStruct
		}
		if g.side == 1 && k == hkHTTPCode {
			// the float text (strconv 'f' / json float) is not modelled: keep api.http_code away from doubles
			hasDouble := f.T.K == thrift.DOUBLE || ((f.T.K == thrift.LIST || f.T.K == thrift.SET) && f.T.Elem.K == thrift.DOUBLE)
			intish := f.T.K == thrift.I32 || f.T.K == thrift.I16 || f.T.K == thrift.I64 || f.T.K == thrift.STRING
			if hasDouble || (!intish && g.r.chance(80)) {
				k = hkHeader
			}
		}
		if g.side == 1 && k == hkNoBodyStruct {
			k = hkForm
		}
		if g.side == 0 && g.r.chance(92) {
			str := f.T.K == thrift.STRING && !f.T.Binary
			if k == hkRawURI && !str {
				k = hkQuery
			}
			if k == hkRawBody && !(str || f.T.K == thrift.STRUCT) {
				k = hkHeader
			}
			if k == hkNoBodyStruct && f.T.K != thrift.STRUCT {
				k = hkPath
			}
		}
		if used[k] {
			continue
		}
		used[k] = true
		key := f.Name
		if g.r.chance(50) {
			key = fmt.Sprintf("k%s", f.Name)
		}
		if g.side == 1 && k == hkCookie && g.r.chance(60) {
			// cookie names that are prefixes of each other (and occasionally equal): every SetCookie must add its own line
			key = []string{"s", "sid", "sid2", "session", "session_id"}[g.r.intn(5)]
		}
		f.Anns = append(f.Anns, hAnn{Kind: k, Key: key})
	}
}

func (g *hgen) annStruct(depth int, nf int) *hTy {
	g.nname++
	sn := g.nname // field names carry the number of THEIR struct: unique over the whole IDL
	t := &hTy{K: thrift.STRUCT, Name: fmt.Sprintf("S%d", g.nname)}
	g.structs = append(g.structs, t)
	ids := []int16{1, 2, 3, 4, 5, 6, 7, 8, 9, 10, 63, 64, 65, 127, 128, 255, 256, 1000}
	used := map[int16]bool{}
	for i := 0; i < nf; i++ {
		var id int16
		for {
			if g.r.chance(70) {
				id = int16(1 + g.r.intn(12))
			} else {
				id = ids[g.r.intn(len(ids))]
			}
			if !used[id] {
				break
			}
		}
		used[id] = true
		f := &hFld{ID: id, Name: fmt.Sprintf("f%d_%d", sn, id), Req: g.r.intn(3)}
		f.T = g.fieldType(depth)
		g.anns(f)
		t.Fields = append(t.Fields, f)
	}
	return t
}

func (t *hTy) idlName() string {
	switch t.K {
	case thrift.BOOL:
		return "bool"
	case thrift.I08:
		return "byte"
	case thrift.I16:
		return "i16"
	case thrift.I32:
		return "i32"
	case thrift.I64:
		return "i64"
	case thrift.DOUBLE:
		return "double"
	case thrift.STRING:
		if t.Binary {
			return "binary"
		}
		return "string"
	case thrift.STRUCT:
		return t.Name
	case thrift.LIST:
		return "list<" + t.Elem.idlName() + ">"
	case thrift.SET:
		return "set<" + t.Elem.idlName() + ">"
	case thrift.MAP:
		return "map<" + t.Key.idlName() + "," + t.Elem.idlName() + ">"
	}
	return "?"
}

func (g *hgen) idl(root *hTy) string {
	var sb strings.Builder
	sb.WriteString("namespace go verif\n")
	for i := len(g.structs) - 1; i >= 0; i-- {
		s := g.structs[i]
		sb.WriteString("struct " + s.Name + " {\n")
		for _, f := range s.Fields {
			req := ""
			if f.Req == 1 {
				req = "required "
			} else if f.Req == 2 {
				req = "optional "
			}
			ann := ""
			if len(f.Anns) > 0 {
				var parts []string
				for _, a := range f.Anns {
					parts = append(parts, fmt.Sprintf("%s = %q", hkName[a.Kind], a.Key))
				}
				ann = " (" + strings.Join(parts, ", ") + ")"
			}
			sb.WriteString(fmt.Sprintf("  %d: %s%s %s%s\n", f.ID, req, f.T.idlName(), f.Name, ann))
		}
		sb.WriteString("}\n")
	}
	sb.WriteString("service Svc { " + root.Name + " M(1: " + root.Name + " req) }\n")
	return sb.String()
}

// ---- serialisation of the abstract descriptor for the checker -------------------------------------

func (t *hTy) fields(out *[]string) {
	switch t.K {
	case thrift.LIST:
		*out = append(*out, fi(1))
		t.Elem.fields(out)
	case thrift.SET:
		*out = append(*out, fi(2))
		t.Elem.fields(out)
	case thrift.MAP:
		*out = append(*out, fi(3))
		t.Key.fields(out)
		t.Elem.fields(out)
	case thrift.STRUCT:
		*out = append(*out, fi(4), fi(len(t.Fields)))
		for _, f := range t.Fields {
			*out = append(*out, fi(int(f.ID)), fs(f.Name), fi(f.Req), fi(len(f.Anns)))
			for _, a := range f.Anns {
				*out = append(*out, fi(a.Kind), fs(a.Key))
			}
			f.T.fields(out)
		}
	default:
		*out = append(*out, fi(0), fi(int(t.K)), fb(t.Binary))
	}
}

// every key a getter may be asked for: annotation keys and field names, of all structs
func (g *hgen) keyUniverse() []string {
	seen := map[string]bool{}
	var out []string
	add := func(s string) {
		if !seen[s] {
			seen[s] = true
			out = append(out, s)
		}
	}
	for _, s := range g.structs {
		for _, f := range s.Fields {
			add(f.Name)
			for _, a := range f.Anns {
				add(a.Key)
			}
		}
	}
	return out
}

// ---- value texts -----------------------------------------------------------------------------------

var hStrs = []string{"a", "b", "hello", "x y", "é", "0", "12", "true", "a,b", "q\"uote", "back\\slash", "[1]", "{}", "tab\there", "Z",
	"line\nbreak", "sl/ash", "\\n", "smile\U0001F600", "é\"\\/\t", "\\u0041", "a\\\"b"}

func (g *hgen) intText(k thrift.Type) string {
	r := g.r
	var v int64
	switch r.intn(6) {
	case 0:
		v = int64(r.u64())
	case 1:
		v = int64(r.intn(7)) - 3
	case 2:
		v = []int64{127, 128, -128, -129, 255, 256, 32767, 32768, -32768, -32769, 2147483647, 2147483648, -2147483648, -2147483649, 9223372036854775807, -9223372036854775808}[r.intn(16)]
	default:
		v = int64(r.intn(200)) - 100
	}
	// mostly in range of the kind
	if r.chance(85) {
		switch k {
		case thrift.I08:
			v = int64(int8(v))
		case thrift.I16:
			v = int64(int16(v))
		case thrift.I32:
			v = int64(int32(v))
		}
	}
	return strconv.FormatInt(v, 10)
}

var hDoubles = []string{"0", "1", "-1", "1.5", "-2.25", "100", "0.1", "3.14159", "1e3", "-1.5e-3", "123456789", "2.5E2", "0.0", "-0"}

// text form of a scalar as it appears in a query/header/... (valid == false: a text the type cannot read)
func (g *hgen) scalarText(t *hTy, valid bool) string {
	r := g.r
	if !valid {
		switch t.K {
		case thrift.STRING:
			if t.Binary {
				return []string{"!!!", "abc", "a=bc"}[r.intn(3)]
			}
			return "plain"
		case thrift.BOOL:
			return []string{"yes", "2", "tru"}[r.intn(3)]
		case thrift.DOUBLE:
			return []string{"abc", "1.2.3", "--1"}[r.intn(3)]
		default:
			return []string{"abc", "1.5", "12a", "99999999999999999999"}[r.intn(4)]
		}
	}
	switch t.K {
	case thrift.BOOL:
		return []string{"true", "false", "1", "0", "t", "F", "TRUE", "False"}[r.intn(8)]
	case thrift.I08, thrift.I16, thrift.I32, thrift.I64:
		return g.intText(t.K)
	case thrift.DOUBLE:
		return hDoubles[r.intn(len(hDoubles))]
	case thrift.STRING:
		if t.Binary {
			return base64.StdEncoding.EncodeToString(r.bytes(r.intn(7)))
		}
		return hStrs[r.intn(len(hStrs))]
	}
	return ""
}

// JSON string literal with randomly chosen (all legal) escape spellings: \/ for '/', \uXXXX for non-ASCII (surrogate pairs
// above U+FFFF), \u00XX for some ASCII letters; quote, backslash and control characters are always escaped
func (g *hgen) quote(s string) string {
	r := g.r
	var b strings.Builder
	b.WriteByte('"')
	for _, c := range s {
		switch {
		case c == '"':
			b.WriteString("\\\"")
		case c == '\\':
			b.WriteString("\\\\")
		case c == '\n':
			b.WriteString([]string{"\\n", "\\u000a", "\\u000A"}[r.intn(3)])
		case c == '\t':
			b.WriteString([]string{"\\t", "\\u0009"}[r.intn(2)])
		case c < 0x20:
			b.WriteString(fmt.Sprintf("\\u%04x", c))
		case c == '/' && g.goUnsafeEsc && r.chance(60):
			b.WriteString("\\/")
		case c == 0xFFFD:
			b.WriteRune(c)
		case c > 0xFFFF && g.goUnsafeEsc && r.chance(60):
			v := c - 0x10000
			b.WriteString(fmt.Sprintf("\\u%04x\\u%04X", 0xD800+(v>>10), 0xDC00+(v&0x3ff)))
		case c >= 0x80 && c <= 0xFFFF && r.chance(50):
			b.WriteString(fmt.Sprintf("\\u%04x", c))
		case c >= 'a' && c <= 'z' && r.chance(8):
			b.WriteString(fmt.Sprintf("\\u%04X", c))
		default:
			b.WriteRune(c)
		}
	}
	b.WriteByte('"')
	return b.String()
}

func jsonQuote(s string) string {
	var b strings.Builder
	b.WriteByte('"')
	for i := 0; i < len(s); i++ {
		c := s[i]
		switch {
		case c == '"':
			b.WriteString("\\\"")
		case c == '\\':
			b.WriteString("\\\\")
		case c == '\n':
			b.WriteString("\\n")
		case c == '\t':
			b.WriteString("\\t")
		case c < 0x20:
			b.WriteString(fmt.Sprintf("\\u%04x", c))
		default:
			b.WriteByte(c)
		}
	}
	b.WriteByte('"')
	return b.String()
}

// JSON text of a conforming value of type t (no nulls; http: the value is meant for an HTTP source, so nested
// annotated structs get members for all their fields more often)
func (g *hgen) jsonText(t *hTy, depth int) string {
	r := g.r
	switch t.K {
	case thrift.BOOL:
		if r.bool() {
			return "true"
		}
		return "false"
	case thrift.I08, thrift.I16, thrift.I32, thrift.I64:
		// in range (overflow behaviour of the JSON path belongs to C02)
		v := int64(r.intn(200)) - 100
		if r.chance(30) {
			switch t.K {
			case thrift.I08:
				v = []int64{127, -128}[r.intn(2)]
			case thrift.I16:
				v = []int64{32767, -32768}[r.intn(2)]
			case thrift.I32:
				v = []int64{2147483647, -2147483648}[r.intn(2)]
			default:
				v = []int64{9223372036854775807, -9223372036854775808, 1 << 53}[r.intn(3)]
			}
		}
		return strconv.FormatInt(v, 10)
	case thrift.DOUBLE:
		return hDoubles[r.intn(len(hDoubles)-1)] // "-0" excluded: an integer lexeme
	case thrift.STRING:
		if t.Binary {
			return jsonQuote(base64.StdEncoding.EncodeToString(r.bytes(r.intn(7))))
		}
		return g.quote(hStrs[r.intn(len(hStrs))])
	case thrift.LIST, thrift.SET:
		n := r.intn(4)
		var parts []string
		for i := 0; i < n; i++ {
			parts = append(parts, g.jsonText(t.Elem, depth+1))
		}
		return "[" + strings.Join(parts, ",") + "]"
	case thrift.MAP:
		n := r.intn(4)
		var parts []string
		seen := map[string]bool{}
		for i := 0; i < n; i++ {
			var k string
			if t.Key.K == thrift.STRING {
				k = []string{"a", "b", "key", "k 1", "z", "s/l", "é"}[r.intn(7)]
			} else {
				k = strconv.Itoa(r.intn(50) - 10)
			}
			if seen[k] {
				continue
			}
			seen[k] = true
			parts = append(parts, g.quote(k)+":"+g.jsonText(t.Elem, depth+1))
		}
		return "{" + strings.Join(parts, ",") + "}"
	case thrift.STRUCT:
		var parts []string
		perm := r.perm(len(t.Fields))
		for _, i := range perm {
			f := t.Fields[i]
			// plain structs (below containers) always carry their required members: requiredness inside containers is C16's subject
			if r.chance(35) && !(f.Req == 1 && strings.HasPrefix(t.Name, "U")) {
				continue
			}
			parts = append(parts, g.quote(f.Name)+":"+g.jsonText(f.T, depth+1))
		}
		if r.chance(6) {
			parts = append(parts, `"unknown_member":[1,{"x":null}]`)
		}
		return "{" + strings.Join(parts, ",") + "}"
	}
	return "null"
}

func (r *rng) perm(n int) []int {
	p := make([]int, n)
	for i := range p {
		p[i] = i
	}
	for i := n - 1; i > 0; i-- {
		j := r.intn(i + 1)
		p[i], p[j] = p[j], p[i]
	}
	return p
}

// text of a value of f's type for an HTTP source
func (g *hgen) httpText(t *hTy) string {
	r := g.r
	switch t.K {
	case thrift.LIST, thrift.SET:
		switch x := r.intn(100); {
		case x < 55:
			return g.jsonText(t, 0)
		case x < 96 && t.Elem.K != thrift.STRUCT:
			n := 1 + r.intn(3)
			var parts []string
			for i := 0; i < n; i++ {
				parts = append(parts, g.scalarText(t.Elem, true))
			}
			return strings.Join(parts, ",")
		default:
			return []string{"[1,", "{}", "x"}[r.intn(3)]
		}
	case thrift.MAP, thrift.STRUCT:
		if r.chance(95) {
			return g.jsonText(t, 0)
		}
		return []string{"plain", "[]", "{\"a\""}[r.intn(3)]
	default:
		return g.scalarText(t, r.chance(96))
	}
}

// ---- requests ---------------------------------------------------------------------------------------

type rewindBody struct {
	data []byte
	pos  int
}

func (b *rewindBody) Read(p []byte) (int, error) {
	if b.pos >= len(b.data) {
		b.pos = 0 // the next reader starts over (GetBody() of HTTPRequest re-reads the stream on every call)
		return 0, io.EOF
	}
	n := copy(p, b.data[b.pos:])
	b.pos += n
	return n, nil
}
func (b *rewindBody) Close() error { return nil }

type hPop struct {
	Kind     int
	Key, Val string
}

// build an HTTPRequest. bodyKind: 0 none, 1 form (pops of kind form/body become form members), 2 json (jbody)
func buildRequest(pops []hPop, bodyKind int, jbody []byte, uriPath string) (*http.HTTPRequest, error) {
	r, _, err := buildRequest2(pops, bodyKind, jbody, uriPath)
	return r, err
}

// intendedView: what was PUT into the URL query, the path params, the headers and the form body (last value per key), in the
// case format of requestView. The checker compares the getters' answers with it: GetQuery must read the URL query only,
// GetPostForm (and GetMapBody of a form request) the body only.
func intendedView(q, form url.Values, hdr, params map[string]string, keys []string) []string {
	var trip []string
	n := 0
	add := func(kind int, k, v string) {
		if v != "" {
			trip = append(trip, fi(kind), fs(k), fs(v))
			n++
		}
	}
	for _, k := range keys {
		add(hkQuery, k, q.Get(k))
		add(hkPath, k, params[k])
		add(hkHeader, k, hdr[k])
		add(hkForm, k, form.Get(k))
	}
	out := []string{fi(n)}
	return append(out, trip...)
}

type hIntended struct {
	q, form     url.Values
	hdr, params map[string]string
	body        *rewindBody
}

// a form parser may stop reading before the stream reports EOF (multipart: at the closing boundary); the harness puts the stream
// back to its start so that every later GetBody() sees the whole body, whatever was parsed before
func (in *hIntended) rewind() {
	if in != nil && in.body != nil {
		in.body.pos = 0
	}
}

// How the request reaches the library: a form value is a form value whatever carries it.
//   ctor: 0 NewHTTPRequestFromStdReq, 1 NewHTTPRequestFromUrl (+ headers set on the embedded request), 2 a hand-built HTTPRequest
//   formCT (form bodies): 0 `application/x-www-form-urlencoded`, 1 with `; charset=UTF-8`, 2 mixed case + parameter, 3 multipart/form-data
type hCarrier struct{ ctor, formCT int }

// the carrier of the requests being built (set per generated request by c17Request; the same for every converter run on it)
var c17Carrier hCarrier

// the body map of a form request is the post form only when the constructor's exact content-type switch recognises the body
func (c hCarrier) bodyMapIsForm() bool { return c.formCT == 0 }

func multipartBody(form url.Values) ([]byte, string) {
	var b bytes.Buffer
	w := multipart.NewWriter(&b)
	w.SetBoundary("verifboundary7MA4YWxkTrZu0gW")
	keys := make([]string, 0, len(form))
	for k := range form {
		keys = append(keys, k)
	}
	sort.Strings(keys)
	for _, k := range keys {
		w.WriteField(k, form.Get(k))
	}
	w.Close()
	return b.Bytes(), w.FormDataContentType()
}

func buildRequest2(pops []hPop, bodyKind int, jbody []byte, uriPath string) (*http.HTTPRequest, *hIntended, error) {
	carrier := c17Carrier
	q := url.Values{}
	form := url.Values{}
	for _, p := range pops {
		switch p.Kind {
		case hkQuery:
			q.Set(p.Key, p.Val)
		case hkForm:
			form.Set(p.Key, p.Val)
		case hkBody:
			if bodyKind == 1 && form.Get(p.Key) == "" {
				form.Set(p.Key, p.Val) // BodyMap of a form request is the post form
			}
		}
	}
	u := "http://verif.example" + uriPath
	if len(q) > 0 {
		u += "?" + q.Encode()
	}
	var body io.Reader
	method := "GET"
	var raw []byte
	formCT := "application/x-www-form-urlencoded"
	switch bodyKind {
	case 1:
		raw = []byte(form.Encode())
		method = "POST"
		switch carrier.formCT {
		case 1:
			formCT += "; charset=UTF-8"
		case 2:
			formCT = "Application/X-WWW-Form-Urlencoded; Charset=utf-8"
		case 3:
			raw, formCT = multipartBody(form)
		}
	case 2:
		raw = jbody
		method = "POST"
	}
	// a server-side request always has a non-nil Body (GetBody() dereferences it)
	rb := &rewindBody{data: raw}
	body = rb
	sr, err := stdh.NewRequest(method, u, body)
	if err != nil {
		return nil, nil, err
	}
	if bodyKind == 1 {
		sr.Header.Set("Content-Type", formCT)
	} else if bodyKind == 2 {
		sr.Header.Set("Content-Type", "application/json")
	}
	var params []http.Param
	in := &hIntended{q: q, form: url.Values{}, hdr: map[string]string{}, params: map[string]string{}, body: rb}
	if bodyKind == 1 {
		in.form = form
	}
	for _, p := range pops {
		switch p.Kind {
		case hkHeader:
			sr.Header.Set(p.Key, p.Val)
			in.hdr[p.Key] = p.Val
		case hkCookie:
			sr.AddCookie(&stdh.Cookie{Name: p.Key, Value: p.Val})
		case hkPath:
			params = append(params, http.Param{Key: p.Key, Value: p.Val})
			in.params[p.Key] = p.Val
		}
	}
	switch carrier.ctor {
	case 1:
		hr, err := http.NewHTTPRequestFromUrl(method, u, body, params...)
		if err != nil {
			return nil, nil, err
		}
		hr.Request.Header = sr.Header
		return hr, in, nil
	case 2:
		hr := &http.HTTPRequest{Request: sr}
		for _, p := range params {
			hr.Params.Set(p.Key, p.Value)
		}
		return hr, in, nil
	}
	hr, err := http.NewHTTPRequestFromStdReq(sr, params...)
	return hr, in, err
}

// what the getters of the request return for every key of the universe (the checker's view of the request)
func requestView(req *http.HTTPRequest, keys []string, in *hIntended) []string {
	var trip []string
	n := 0
	for _, k := range keys {
		for _, kind := range hkKeyed {
			var v string
			switch kind {
			case hkQuery:
				v = req.GetQuery(k)
			case hkPath:
				v = req.GetParam(k)
			case hkHeader:
				v = req.GetHeader(k)
			case hkCookie:
				v = req.GetCookie(k)
			case hkForm:
				v = req.GetPostForm(k)
			case hkBody:
				v = req.GetMapBody(k)
			}
			if v != "" {
				trip = append(trip, fi(kind), fs(k), fs(v))
				n++
			}
		}
	}
	out := []string{fi(n)}
	out = append(out, trip...)
	in.rewind()
	out = append(out, fx(req.GetBody()), fs(req.GetUri()))
	in.rewind()
	return out
}

// ---- thrift encoding of a value from its JSON-ish abstract form (response side) ------------------------

type hVal struct {
	T      *hTy
	I      int64
	D      uint64
	S      []byte
	IDs    []int16
	Fields []*hVal
	Keys   []*hVal
	Elems  []*hVal
}

func (g *hgen) value(t *hTy, depth int) *hVal {
	r := g.r
	v := &hVal{T: t}
	switch t.K {
	case thrift.BOOL:
		v.I = int64(r.intn(2))
	case thrift.I08:
		v.I = int64(int8(r.u64()))
	case thrift.I16:
		v.I = int64(int16(r.u64()))
	case thrift.I32:
		v.I = int64(int32(r.u64()))
		if r.chance(50) {
			v.I = int64([]int{200, 404, 500, 0, -1, 302}[r.intn(6)])
		}
	case thrift.I64:
		v.I = int64(r.u64())
		if r.chance(40) {
			v.I = int64([]int{200, 404, 500, 0, -1, 302}[r.intn(6)])
		}
	case thrift.DOUBLE:
		v.D = []uint64{0, 0x3ff0000000000000, 0xbff0000000000000, 0x4059000000000000, 0x3ff8000000000000}[r.intn(5)]
	case thrift.STRING:
		if t.Binary {
			v.S = r.bytes(r.intn(6))
		} else {
			v.S = []byte([]string{"a", "", "hello", "x y", "200", "v;w", "é", "q\"uote", "abc"}[r.intn(9)])
		}
	case thrift.LIST, thrift.SET:
		n := r.intn(4)
		for i := 0; i < n; i++ {
			v.Elems = append(v.Elems, g.value(t.Elem, depth+1))
		}
	case thrift.MAP:
		n := r.intn(3)
		seen := map[string]bool{}
		for i := 0; i < n; i++ {
			k := g.value(t.Key, depth+1)
			kb := string(k.encode(nil))
			if seen[kb] {
				continue
			}
			seen[kb] = true
			v.Keys = append(v.Keys, k)
			v.Elems = append(v.Elems, g.value(t.Elem, depth+1))
		}
	case thrift.STRUCT:
		for _, i := range r.perm(len(t.Fields)) {
			f := t.Fields[i]
			if r.chance(30) {
				continue
			}
			v.IDs = append(v.IDs, f.ID)
			v.Fields = append(v.Fields, g.value(f.T, depth+1))
		}
	}
	return v
}

func (v *hVal) encode(b []byte) []byte {
	switch v.T.K {
	case thrift.BOOL, thrift.I08:
		return append(b, byte(v.I))
	case thrift.I16:
		return binary.BigEndian.AppendUint16(b, uint16(v.I))
	case thrift.I32:
		return binary.BigEndian.AppendUint32(b, uint32(v.I))
	case thrift.I64:
		return binary.BigEndian.AppendUint64(b, uint64(v.I))
	case thrift.DOUBLE:
		return binary.BigEndian.AppendUint64(b, v.D)
	case thrift.STRING:
		b = binary.BigEndian.AppendUint32(b, uint32(len(v.S)))
		return append(b, v.S...)
	case thrift.STRUCT:
		for i, id := range v.IDs {
			b = append(b, byte(v.Fields[i].T.K))
			b = binary.BigEndian.AppendUint16(b, uint16(id))
			b = v.Fields[i].encode(b)
		}
		return append(b, 0)
	case thrift.LIST, thrift.SET:
		b = append(b, byte(v.T.Elem.K))
		b = binary.BigEndian.AppendUint32(b, uint32(len(v.Elems)))
		for _, e := range v.Elems {
			b = e.encode(b)
		}
		return b
	case thrift.MAP:
		b = append(b, byte(v.T.Key.K), byte(v.T.Elem.K))
		b = binary.BigEndian.AppendUint32(b, uint32(len(v.Elems)))
		for i, e := range v.Elems {
			b = v.Keys[i].encode(b)
			b = e.encode(b)
		}
		return b
	}
	return b
}

var _ = bytes.NewReader
