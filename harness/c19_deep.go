//go:build verif

package main

import (
	"encoding/binary"
	"sort"

	"github.com/cloudwego/dynamicgo/thrift"
)

// Additional C19 classes: values that are very deep (around the skip depth limit) or very wide (thousands of
// nested containers in total), and integer reads through ReadInt / ReadAny's integer-keyed maps incl. negative keys.
func init() {
	base := generators["C19"]
	generators["C19"] = func(r *rng, n int) {
		base(r, n)
		genC19Deep(r, n)
	}
}

func c19be32(n int) []byte { b := make([]byte, 4); binary.BigEndian.PutUint32(b, uint32(n)); return b }

// list<list<...list<i32>>> nested d levels, innermost empty
func deepList(d int) []byte {
	var b []byte
	for i := 0; i < d-1; i++ {
		b = append(b, byte(thrift.LIST))
		b = append(b, c19be32(1)...)
	}
	b = append(b, byte(thrift.I32))
	b = append(b, c19be32(0)...)
	return b
}

// struct{1: struct{1: ... struct{} }} nested d levels
func deepStruct(d int) []byte {
	var b []byte
	for i := 0; i < d-1; i++ {
		b = append(b, byte(thrift.STRUCT), 0, 1)
	}
	for i := 0; i < d; i++ {
		b = append(b, 0)
	}
	return b
}

// map<i32, map<i32, ...>> nested d levels with one entry each, innermost empty map<i32,i32>
func deepMap(d int) []byte {
	var b []byte
	for i := 0; i < d-1; i++ {
		b = append(b, byte(thrift.I32), byte(thrift.MAP))
		b = append(b, c19be32(1)...)
		b = append(b, c19be32(i)...)
	}
	b = append(b, byte(thrift.I32), byte(thrift.I32))
	b = append(b, c19be32(0)...)
	return b
}

// struct with w fields, each an (empty or one-level) struct: many nested structs in total, depth 2..3
func wideStruct(w int, inner bool) []byte {
	var b []byte
	for i := 0; i < w; i++ {
		id := i + 1
		b = append(b, byte(thrift.STRUCT), byte(id>>8), byte(id))
		if inner {
			b = append(b, byte(thrift.STRUCT), 0, 1, 0)
		}
		b = append(b, 0)
	}
	return append(b, 0)
}

// complete binary tree of structs of the given depth (fields 1 and 2)
func structTree(depth int) []byte {
	if depth <= 1 {
		return []byte{0}
	}
	sub := structTree(depth - 1)
	var b []byte
	b = append(b, byte(thrift.STRUCT), 0, 1)
	b = append(b, sub...)
	b = append(b, byte(thrift.STRUCT), 0, 2)
	b = append(b, sub...)
	return append(b, 0)
}

func genC19Deep(r *rng, n int) {
	emitSkip := func(t thrift.Type, b []byte) {
		p := thrift.BinaryProtocol{Buf: b}
		var e1, e2 error
		n1, n2 := 0, 0
		if ok, _ := noPanic(func() { e1 = p.SkipGo(t, thrift.MaxSkipDepth); n1 = p.Read }); !ok {
			e1, n1 = errPanic, -1
		}
		p2 := thrift.BinaryProtocol{Buf: b}
		if ok, _ := noPanic(func() { e2 = p2.SkipNative(t, thrift.MaxSkipDepth); n2 = p2.Read }); !ok {
			e2, n2 = errPanic, -1
		}
		if e1 != nil {
			n1 = 0
		}
		if e2 != nil {
			n2 = 0
		}
		out.emit(1903, fi(int(t)), fx(b), berr(e1), fi(n1), berr(e2), fi(n2), fi(thrift.TypeSize(t)))
	}
	depths := []int{2, 100, 511, 512, 513, 514, 600, 900, 1021, 1022, 1023, 1024, 1025}
	depths = append(depths, 3+r.intn(1020), 3+r.intn(1020))
	for _, d := range depths {
		emitSkip(thrift.LIST, append(deepList(d), 0xaa))
		emitSkip(thrift.STRUCT, append(deepStruct(d), 0xbb, 0xcc))
		emitSkip(thrift.MAP, deepMap(d))
	}
	for _, w := range []int{1, 500, 1022, 1023, 1024, 1500, 3000} {
		emitSkip(thrift.STRUCT, wideStruct(w, false))
		emitSkip(thrift.STRUCT, wideStruct(w, true))
	}
	for _, d := range []int{2, 9, 10, 11, 12} {
		emitSkip(thrift.STRUCT, structTree(d))
	}
	// list of many empty structs / lists
	{
		b := append([]byte{byte(thrift.STRUCT)}, c19be32(2500)...)
		for i := 0; i < 2500; i++ {
			b = append(b, 0)
		}
		emitSkip(thrift.LIST, b)
		c := append([]byte{byte(thrift.LIST)}, c19be32(1500)...)
		for i := 0; i < 1500; i++ {
			c = append(c, byte(thrift.BOOL), 0, 0, 0, 0)
		}
		emitSkip(thrift.LIST, c)
	}

	// 1911: WriteInt / ReadInt over all integer widths, boundary + random, negative values included
	ints := []thrift.Type{thrift.I08, thrift.I16, thrift.I32, thrift.I64}
	vals := []int64{0, 1, -1, 2, -2, 127, 128, -128, -129, 255, 256, 32767, 32768, -32768, -32769, 65535, 65536,
		1<<31 - 1, 1 << 31, -(1 << 31), -(1 << 31) - 1, 1<<32 - 1, 1 << 32, 1<<63 - 1, -(1 << 63), -7, -300, -70000}
	for i := 0; i < 40+n/100; i++ {
		vals = append(vals, int64(r.u64()))
	}
	for _, t := range ints {
		for _, v := range vals {
			p := thrift.NewBinaryProtocolBuffer()
			werr := p.WriteInt(t, int(v))
			w := append([]byte(nil), p.Buf...)
			var got int
			var rerr error
			if werr == nil {
				rp := thrift.BinaryProtocol{Buf: w}
				got, rerr = rp.ReadInt(t)
			}
			thrift.FreeBinaryProtocolBuffer(p)
			out.emit(1911, fi(int(t)), fn(v), berr(werr), fx(w), berr(rerr), fn(int64(got)))
		}
	}

	// 1912: ReadAny on integer-keyed maps (keys of every width, negative ones included): the Go map read back
	for i := 0; i < 30+n/100; i++ {
		kt := ints[r.intn(4)]
		cnt := r.intn(6)
		keys := map[int64]int64{}
		for len(keys) < cnt {
			var k int64
			switch r.intn(3) {
			case 0:
				k = vals[r.intn(len(vals))]
			case 1:
				k = -int64(r.intn(1000))
			default:
				k = int64(r.u64())
			}
			switch kt {
			case thrift.I08:
				k = int64(int8(k))
			case thrift.I16:
				k = int64(int16(k))
			case thrift.I32:
				k = int64(int32(k))
			}
			keys[k] = int64(r.u64())
		}
		var ks []int64
		for k := range keys {
			ks = append(ks, k)
		}
		sort.Slice(ks, func(a, b int) bool { return ks[a] < ks[b] })
		b := []byte{byte(kt), byte(thrift.I64)}
		b = append(b, c19be32(len(ks))...)
		for _, k := range ks {
			switch kt {
			case thrift.I08:
				b = append(b, byte(k))
			case thrift.I16:
				b = append(b, byte(k>>8), byte(k))
			case thrift.I32:
				b = append(b, c19be32(int(int32(k)))...)
			default:
				b = binary.BigEndian.AppendUint64(b, uint64(k))
			}
			b = binary.BigEndian.AppendUint64(b, uint64(keys[k]))
		}
		var got interface{}
		var rerr error
		ok, _ := noPanic(func() {
			rp := thrift.NewBinaryProtocol(append([]byte(nil), b...))
			got, rerr = rp.ReadAny(thrift.MAP, false, true)
		})
		fields := []string{fi(int(kt)), fx(b)}
		if !ok {
			out.emit(1912, append(fields, "n3")...)
			continue
		}
		fields = append(fields, berr(rerr))
		if rerr == nil {
			m, isInt := got.(map[int]interface{})
			if !isInt {
				out.emit(1912, append(fields, "n-1")...)
				continue
			}
			var gk []int
			for k := range m {
				gk = append(gk, k)
			}
			sort.Ints(gk)
			for _, k := range gk {
				vv, _ := m[k].(int64)
				fields = append(fields, fn(int64(k)), fn(vv))
			}
		}
		out.emit(1912, fields...)
	}
}
