//go:build verif

// C10: Protobuf edits (SetByPath / SetMany / UnsetByPath on the root Value) and PathNode Load+Marshal.
//
// check 1001  edit history:
//	schema  x<b0>  n<nops>  { op }
//	op := n<kind 1 set|2 unset|3 setmany> path [x<sub bytes> n<kind of the sub NODE>] | n3 n<#> { n<field id> x<sub bytes> }
//	      n<err 0 ok|1 error|2 panic> n<exist> x<result bytes> n<reference accepted 0|1>
//	      x<the ORIGINAL input slice now> x<Raw() of a second root value made over the input before the edits, now>
//	      x<the slice Raw() returned BEFORE this op, now>      (buffers handed out earlier are immutable values)
//	path := n<#steps> { n1 n<id> | n2 x<name> | n3 n<index> | n4 x<str key> | n5 n<int key (Go int)> }
// check 1002  x<b0> n<recurse> n<err> x<marshalled> n<reference accepted> x<earlier Marshal results NOW> x<the same results when they were returned>
// check 1003  tree REUSE: schema x<bA> x<bB> n<recurse A> n<recurse B> n<mode 0 same PathNode|1 pooled node|2 A,B,A on one node>
//             n<err> x<marshalled after the LAST load> n<reference accepted> x<earlier Marshal results NOW> x<... when returned>;
//             the last message loaded is bB (mode 2: bA)
//
// The harness never decides what is expected: the next path is chosen from what the REFERENCE decoder reports for the
// current bytes; the Gallina side decodes every buffer itself.
package main

import (
	"encoding/binary"
	"fmt"
	"os"
	"math/big"

	"github.com/cloudwego/dynamicgo/proto"
	"github.com/cloudwego/dynamicgo/proto/generic"
)

func init() { generators["C10"] = genC10 }

type c10Step struct {
	T int // 1 id, 2 name, 3 index, 4 str key, 5 int key
	N int64
	B []byte
}

func c10Varint(b []byte, v uint64) []byte {
	for v >= 0x80 {
		b = append(b, byte(v)|0x80)
		v >>= 7
	}
	return append(b, byte(v))
}

// bytes a Node of that kind holds (what follows the tag)
func c10ScalarBytes(kind int, v *pgVal) []byte {
	if v.Tag == 3 {
		return append(c10Varint(nil, uint64(len(v.B))), v.B...)
	}
	var u uint64
	if v.I.Sign() < 0 {
		u = uint64(v.I.Int64())
	} else {
		u = v.I.Uint64()
	}
	switch pgWireType(kind) {
	case 1:
		var b [8]byte
		binary.LittleEndian.PutUint64(b[:], u)
		return b[:]
	case 5:
		var b [4]byte
		binary.LittleEndian.PutUint32(b[:], uint32(u))
		return b[:]
	}
	if kind == 17 || kind == 18 {
		s := v.I.Int64()
		u = uint64(s<<1) ^ uint64(s>>63)
	}
	return c10Varint(nil, u)
}

func c10GoInt(v *pgVal) int64 {
	if v.I.Sign() < 0 || v.I.IsInt64() {
		return v.I.Int64()
	}
	return int64(v.I.Uint64())
}

type c10Gen struct {
	r  *rng
	c  *pgCompiled
	vg *pgValGen
}

var c10Sizes = []int{0, 1, 126, 127, 128, 129, 16382, 16383, 16384, 16385}

// a sub value for one element of field f (singular field value, list element, map value) and its node
// old: the value being replaced (nil when none): often a replacement of the SAME encoded size is produced (fixed-width
// kinds always are; equal-length strings / bytes; varints of the same width), the case in which an implementation
// could be tempted to overwrite in place
func (g *c10Gen) subValue(f *pgField, depth int, old *pgVal) (generic.Node, []byte) {
	r := g.r
	if old != nil && f.Kind != pgKMessage && r.chance(45) {
		switch {
		case pgIsBytesKind(f.Kind) && old.Tag == 3:
			var p []byte
			if f.Kind == pgKString {
				p = g.vg.utf8(len(old.B))
			} else {
				p = r.bytes(len(old.B))
			}
			b := append(c10Varint(nil, uint64(len(p))), p...)
			return generic.NewNode(proto.Type(f.Kind), b), b
		case old.Tag == 2 && pgWireType(f.Kind) == 0:
			// same varint width: only the low bits of the first byte change
			b := append([]byte(nil), c10ScalarBytes(f.Kind, old)...)
			if f.Kind == pgKBool {
				b[0] ^= 1
			} else {
				b[0] ^= byte(1 + r.intn(63))
			}
			return generic.NewNode(proto.Type(f.Kind), b), b
		}
	}
	switch {
	case f.Kind == pgKMessage:
		var sv *pgVal
		if r.chance(15) {
			sv = &pgVal{Tag: 1, Kind: pgKMessage}
		} else {
			sv = g.vg.message(f.MsgName, depth+2)
			g.vg.budget = 40
		}
		body, err := g.c.encodeRef(sv, f.MsgName)
		if err != nil {
			body = nil
		}
		// pad towards a boundary with a string field when the message has one
		b := append(c10Varint(nil, uint64(len(body))), body...)
		return generic.NewNode(proto.MESSAGE, b), b
	case pgIsBytesKind(f.Kind):
		var n int
		switch x := r.intn(100); {
		case x < 25:
			n = c10Sizes[r.intn(len(c10Sizes))]
		case x < 35:
			n = 100 + r.intn(60)
		default:
			n = r.intn(12)
		}
		var p []byte
		if f.Kind == pgKString {
			p = g.vg.utf8(n)
		} else {
			p = r.bytes(n)
		}
		b := append(c10Varint(nil, uint64(len(p))), p...)
		return generic.NewNode(proto.Type(f.Kind), b), b
	}
	sv := g.vg.scalar(f, f.Kind, false, false, r.chance(30))
	b := c10ScalarBytes(f.Kind, sv)
	return generic.NewNode(proto.Type(f.Kind), b), b
}

type c10Target struct {
	path  []c10Step
	f     *pgField // field whose element the path addresses
	whole bool     // the path addresses the whole field (singular value, or a whole list / map)
	depth int
	exist bool
	old   *pgVal // the existing element the path addresses (nil when absent / a whole list or map)
}

func (g *c10Gen) fieldStep(f *pgField) c10Step {
	if g.r.chance(45) {
		return c10Step{T: 2, B: []byte(f.Name)}
	}
	return c10Step{T: 1, N: int64(f.Num)}
}

func (g *c10Gen) keyStep(k *pgVal) c10Step {
	if k.Tag == 3 {
		return c10Step{T: 4, B: k.B}
	}
	return c10Step{T: 5, N: c10GoInt(k)}
}

// random walk over the current value (as the reference reports it); stops at an existing element or at an absent
// last element (field / next index / new key). wantDepth: number of steps aimed at.
func (g *c10Gen) walk(cur *pgVal, msgName string, wantDepth int) *c10Target {
	r := g.r
	t := &c10Target{}
	m := g.c.S.msg(msgName)
	for {
		if len(m.Fields) == 0 {
			return nil
		}
		// choose a field: prefer present ones while depth is wanted
		var present []pgFV
		present = append(present, cur.Fields...)
		var f *pgField
		var fv *pgVal
		if len(present) > 0 && (len(t.path) < wantDepth-1 || r.chance(60)) {
			// prefer containers / messages when more depth is wanted
			var deep []pgFV
			for _, p := range present {
				if p.F.Kind == pgKMessage || p.F.Label != pgSingular {
					deep = append(deep, p)
				}
			}
			pick := present
			if len(deep) > 0 && len(t.path) < wantDepth-1 && r.chance(85) {
				pick = deep
			}
			p := pick[r.intn(len(pick))]
			f, fv = p.F, p.V
		} else {
			f = m.Fields[r.intn(len(m.Fields))]
			for _, p := range present {
				if p.F.Num == f.Num {
					fv = p.V
				}
			}
		}
		t.path = append(t.path, g.fieldStep(f))
		t.f = f
		t.depth++
		if fv == nil { // absent field: insertion point (only element-like fields are inserted)
			t.exist = false
			t.whole = true
			return t
		}
		switch f.Label {
		case pgSingular:
			if f.Kind == pgKMessage && len(t.path) < wantDepth && r.chance(85) {
				cur, m = fv, g.c.S.msg(f.MsgName)
				continue
			}
			t.exist, t.whole, t.old = true, true, fv
			return t
		case pgRepeated:
			if len(t.path) >= wantDepth && r.chance(25) {
				t.exist, t.whole = true, true // the whole list (unset only)
				return t
			}
			n := len(fv.Elems)
			var idx int
			switch x := r.intn(100); {
			case x < 62 && n > 0:
				idx = r.intn(n)
			case x < 70 && n > 0:
				idx = n - 1
			case x < 85:
				idx = n // next index
			default:
				idx = n + 1 + r.intn(1500)
			}
			t.path = append(t.path, c10Step{T: 3, N: int64(idx)})
			if idx >= n {
				t.exist = false
				return t
			}
			if f.Kind == pgKMessage && len(t.path) < wantDepth && r.chance(80) {
				cur, m = fv.Elems[idx], g.c.S.msg(f.MsgName)
				continue
			}
			t.exist, t.old = true, fv.Elems[idx]
			return t
		case pgMap:
			if len(t.path) >= wantDepth && r.chance(20) {
				t.exist, t.whole = true, true
				return t
			}
			n := len(fv.Entries)
			if n > 0 && r.chance(70) {
				e := fv.Entries[r.intn(n)]
				t.path = append(t.path, g.keyStep(e.K))
				if f.Kind == pgKMessage && len(t.path) < wantDepth && r.chance(80) {
					cur, m = e.V, g.c.S.msg(f.MsgName)
					continue
				}
				t.exist, t.old = true, e.V
				return t
			}
			// a key that is (probably) absent
			var k *pgVal
			for try := 0; try < 6; try++ {
				k = g.vg.mapKey(f.KeyKind)
				dup := false
				for _, e := range fv.Entries {
					if pgValEqual(e.K, k) {
						dup = true
					}
				}
				if !dup {
					break
				}
			}
			t.path = append(t.path, g.keyStep(k))
			t.exist = false
			return t
		}
	}
}

// a smaller variant of message v: fields dropped, sub-messages emptied (present, no field), lists / maps shortened
func c10Prune(r *rng, v *pgVal) *pgVal {
	out := &pgVal{Tag: 1, Kind: pgKMessage}
	one := func(e *pgVal) *pgVal {
		if e.Tag != 1 {
			return e
		}
		if r.chance(40) {
			return &pgVal{Tag: 1, Kind: pgKMessage}
		}
		return c10Prune(r, e)
	}
	for _, fv := range v.Fields {
		if r.chance(25) {
			continue
		}
		switch fv.V.Tag {
		case 1:
			out.Fields = append(out.Fields, pgFV{F: fv.F, V: one(fv.V)})
		case 4:
			n := 1 + r.intn(len(fv.V.Elems))
			l := &pgVal{Tag: 4, Kind: fv.V.Kind, Packed: fv.V.Packed}
			for _, e := range fv.V.Elems[:n] {
				l.Elems = append(l.Elems, one(e))
			}
			out.Fields = append(out.Fields, pgFV{F: fv.F, V: l})
		case 5:
			m := &pgVal{Tag: 5, Kind: fv.V.Kind, KeyKind: fv.V.KeyKind}
			for i, kv := range fv.V.Entries {
				if i > 0 && r.chance(40) {
					continue
				}
				m.Entries = append(m.Entries, pgKV{K: kv.K, V: one(kv.V)})
			}
			out.Fields = append(out.Fields, pgFV{F: fv.F, V: m})
		default:
			out.Fields = append(out.Fields, fv)
		}
	}
	return out
}

func c10Path(steps []c10Step) ([]generic.Path, []string) {
	ps := make([]generic.Path, 0, len(steps))
	fsx := []string{fi(len(steps))}
	for _, s := range steps {
		switch s.T {
		case 1:
			ps = append(ps, generic.NewPathFieldId(proto.FieldNumber(s.N)))
			fsx = append(fsx, fi(1), fn(s.N))
		case 2:
			ps = append(ps, generic.NewPathFieldName(string(s.B)))
			fsx = append(fsx, fi(2), fx(s.B))
		case 3:
			ps = append(ps, generic.NewPathIndex(int(s.N)))
			fsx = append(fsx, fi(3), fn(s.N))
		case 4:
			ps = append(ps, generic.NewPathStrKey(string(s.B)))
			fsx = append(fsx, fi(4), fx(s.B))
		case 5:
			ps = append(ps, generic.NewPathIntKey(int(s.N)))
			fsx = append(fsx, fi(5), fn(s.N))
		}
	}
	return ps, fsx
}

func c10ErrClass(ok bool, err error) int {
	if !ok {
		return 2
	}
	if err != nil {
		return 1
	}
	return 0
}

// Marshal results are values: a result handed out earlier must not change when Marshal is called again (retention).
// The last few results are kept as returned (the very slices) together with private copies.
type c10Kept struct{ alias, copy []byte }

var c10Retained []c10Kept

func c10Keep(b []byte) {
	if b == nil {
		return
	}
	c10Retained = append(c10Retained, c10Kept{alias: b, copy: append([]byte(nil), b...)})
	if len(c10Retained) > 4 {
		c10Retained = c10Retained[1:]
	}
}

// (what the retained slices hold now, what they held when they were returned), all but the most recent result
func c10RetainedFields() (string, string) {
	var now, then []byte
	for i := 0; i+1 < len(c10Retained); i++ {
		now = append(now, c10Retained[i].alias...)
		then = append(then, c10Retained[i].copy...)
	}
	return fx(now), fx(then)
}

// an ill-typed node for an EXISTING element of kind k: another scalar kind, mostly of the same wire class
func (g *c10Gen) wrongKind(k int) int {
	classes := [][]int{{3, 4, 5, 13, 17, 18, 8}, {1, 6, 16}, {2, 7, 15}, {9, 12}}
	r := g.r
	if r.chance(70) {
		for _, cl := range classes {
			in := false
			for _, x := range cl {
				if x == k || (k == 14 && x == 5) {
					in = true
				}
			}
			if in {
				for try := 0; try < 8; try++ {
					o := cl[r.intn(len(cl))]
					if o != k {
						return o
					}
				}
			}
		}
	}
	for {
		o := pgScalarKinds[r.intn(len(pgScalarKinds))]
		if o != k {
			return o
		}
	}
}

// the value the path addresses in cur (as the reference reports it), nil when it is gone
func c10Lookup(c *pgCompiled, cur *pgVal, root string, steps []c10Step) *pgVal {
	v := cur
	m := c.S.msg(root)
	var f *pgField
	for _, st := range steps {
		if v == nil {
			return nil
		}
		switch st.T {
		case 1, 2:
			if v.Tag != 1 || m == nil {
				return nil
			}
			var nv *pgVal
			for _, fv := range v.Fields {
				if (st.T == 1 && int64(fv.F.Num) == st.N) || (st.T == 2 && fv.F.Name == string(st.B)) {
					nv, f = fv.V, fv.F
				}
			}
			v = nv
			if f != nil && f.Kind == pgKMessage {
				m = c.S.msg(f.MsgName)
			}
		case 3:
			if v.Tag != 4 || st.N < 0 || int(st.N) >= len(v.Elems) {
				return nil
			}
			v = v.Elems[st.N]
		default:
			if v.Tag != 5 {
				return nil
			}
			var nv *pgVal
			for _, e := range v.Entries {
				if (st.T == 4 && e.K.Tag == 3 && string(e.K.B) == string(st.B)) || (st.T == 5 && e.K.Tag == 2 && c10GoInt(e.K) == st.N) {
					nv = e.V
				}
			}
			v = nv
		}
	}
	return v
}

func genC10(r *rng, n int) {
	nh := n / 8
	if nh < 6 {
		nh = 6
	}
	opts := &generic.Options{}
	_ = big.NewInt
	for hi := 0; hi < nh; hi++ {
		sr := r.fork()
		maxDepth := 2 + sr.intn(4)
		s := genProtoSchema(sr, pgOpts{MaxMsgs: 4, MaxFields: 7, MaxDepth: maxDepth})
		c, err := compileProtoSchema(s)
		if err != nil {
			continue
		}
		val := genProtoValue(sr, c, s.Root, 0)
		b0, err := c.encodeRef(val, s.Root)
		if err != nil {
			continue
		}
		schemaF := s.caseFields()

		// ---- Load + Marshal (recursive and lazy)
		for _, rec := range []bool{true, false} {
			var outb []byte
			var lerr error
			ok, _ := noPanic(func() {
				pn := generic.PathNode{Node: generic.NewNode(proto.MESSAGE, append([]byte(nil), b0...))}
				if lerr = pn.Load(rec, opts, c.Dyn); lerr != nil {
					return
				}
				outb, lerr = pn.Marshal(opts)
			})
			acc := 0
			if ok && lerr == nil {
				c10Keep(outb)
				if _, e := c.dumpRef(outb, s.Root); e == nil {
					acc = 1
				}
			}
			rnow, rthen := c10RetainedFields()
			fl := append([]string{}, schemaF...)
			fl = append(fl, fx(b0), fb(rec), fi(c10ErrClass(ok, lerr)), fx(outb), fi(acc), rnow, rthen)
			out.emit(1002, fl...)
		}

		// ---- tree reuse: load A, then load B into the same / a pooled PathNode, marshal
		for k := 0; k < 3; k++ {
			var vb *pgVal
			if sr.chance(75) {
				vb = c10Prune(sr, val)
			} else {
				vb = genProtoValue(sr, c, s.Root, 0)
			}
			bB, err := c.encodeRef(vb, s.Root)
			if err != nil {
				continue
			}
			recA, recB, mode := sr.chance(80), sr.chance(80), sr.intn(3)
			var outb []byte
			var lerr error
			emit := true
			ok, pmsg := noPanic(func() {
				load := func(pn *generic.PathNode, b []byte, rec bool) error {
					pn.Node = generic.NewNode(proto.MESSAGE, append([]byte(nil), b...))
					return pn.Load(rec, opts, c.Dyn)
				}
				// the state of the tree must be known to the model: a zeroed node (mode 1: a pooled one, zeroed), then A
				pn := &generic.PathNode{}
				if mode == 1 {
					pn = generic.NewPathNode()
					*pn = generic.PathNode{}
				}
				if e := load(pn, b0, recA); e != nil {
					emit = false // defects of a fresh load are covered by check 1002
					return
				}
				if sr.chance(50) {
					if mo, e := pn.Marshal(opts); e == nil {
						c10Keep(mo)
					}
				}
				if mode == 1 {
					generic.FreePathNode(pn)
					pn2 := generic.NewPathNode()
					if pn2 != pn {
						emit = false // the pool handed out another node: its history is unknown
						return
					}
				}
				if lerr = load(pn, bB, recB); lerr != nil {
					return
				}
				if mode == 2 {
					var mo []byte
					if mo, lerr = pn.Marshal(opts); lerr != nil {
						return
					}
					c10Keep(mo)
					if lerr = load(pn, b0, recA); lerr != nil {
						return
					}
				}
				outb, lerr = pn.Marshal(opts)
			})
			if !ok && debugErr {
				fmt.Fprintf(os.Stderr, "C10 reuse panic: %s\n", pmsg)
			}
			if !emit {
				continue
			}
			last := bB
			if mode == 2 {
				last = b0
			}
			_ = last
			acc := 0
			if ok && lerr == nil {
				c10Keep(outb)
				if _, e := c.dumpRef(outb, s.Root); e == nil {
					acc = 1
				}
			}
			rnow, rthen := c10RetainedFields()
			fl := append([]string{}, schemaF...)
			fl = append(fl, fx(b0), fx(bB), fb(recA), fb(recB), fi(mode), fi(c10ErrClass(ok, lerr)), fx(outb), fi(acc), rnow, rthen)
			out.emit(1003, fl...)
		}

		// ---- edit history
		g := &c10Gen{r: sr, c: c, vg: &pgValGen{r: sr, c: c, budget: 40}}
		// the input slice is handed to the library as it is (NewRootValue does not copy); b0 stays the private copy.
		// A second root value over the same slice must keep marshalling to the original bytes whatever happens to v.
		input := append([]byte(nil), b0...)
		v := generic.NewRootValue(c.Dyn, input)
		witness := generic.NewRootValue(c.Dyn, input)
		cur := val
		nops := 1 + sr.intn(8)
		var ops []string
		done := 0
		var drain []c10Step // container (list / map) that is being emptied element by element
		for oi := 0; oi < nops; oi++ {
			kind := 1
			var forced *c10Target
			if drain != nil {
				cv := c10Lookup(c, cur, s.Root, drain)
				switch {
				case cv != nil && cv.Tag == 4 && len(cv.Elems) > 0:
					idx := 0
					if sr.chance(40) {
						idx = len(cv.Elems) - 1
					}
					forced = &c10Target{path: append(append([]c10Step{}, drain...), c10Step{T: 3, N: int64(idx)}), exist: true}
				case cv != nil && cv.Tag == 5 && len(cv.Entries) > 0:
					forced = &c10Target{path: append(append([]c10Step{}, drain...), g.keyStep(cv.Entries[0].K)), exist: true}
				default:
					drain = nil
				}
			}
			switch x := sr.intn(100); {
			case forced != nil:
				kind = 2
			case x < 62:
				kind = 1
			case x < 88:
				kind = 2
			default:
				kind = 3
			}
			var opf []string
			var ex bool
			var oerr error
			var ok bool
			prevAlias := v.Raw() // the very slice the value holds now
			prev := append([]byte(nil), prevAlias...)
			if kind == 3 {
				// distinct singular root fields, present or absent
				m := c.S.msg(s.Root)
				var cand []*pgField
				for _, f := range m.Fields {
					if f.Label == pgSingular {
						cand = append(cand, f)
					}
				}
				if len(cand) == 0 {
					kind = 1
				} else {
					k := 1 + sr.intn(3)
					if k > len(cand) {
						k = len(cand)
					}
					// random subset, random order
					for i := len(cand) - 1; i > 0; i-- {
						j := sr.intn(i + 1)
						cand[i], cand[j] = cand[j], cand[i]
					}
					pns := make([]generic.PathNode, 0, k)
					opf = append(opf, fi(3), fi(k))
					for _, f := range cand[:k] {
						var oldv *pgVal
						for _, p := range cur.Fields {
							if p.F.Num == f.Num {
								oldv = p.V
							}
						}
						nd, nb := g.subValue(f, 1, oldv)
						pns = append(pns, generic.PathNode{Path: generic.NewPathFieldId(proto.FieldNumber(f.Num)), Node: nd})
						opf = append(opf, fi(int(f.Num)), fx(nb))
					}
					ok, _ = noPanic(func() { oerr = v.SetMany(pns, opts, &v, []int{}) })
				}
			}
			if kind != 3 {
				want := 1 + sr.intn(5)
				t := forced
				for try := 0; try < 6 && t == nil; try++ {
					t = g.walk(cur, s.Root, want)
					if t != nil && kind == 1 && t.whole && t.f.Label != pgSingular {
						t = nil // whole lists / maps are only unset
					}
				}
				if t == nil {
					break
				}
				ps, pf := c10Path(t.path)
				opf = append(opf, fi(kind))
				opf = append(opf, pf...)
				if kind == 1 {
					nd, nb := g.subValue(t.f, t.depth, t.old)
					nk := t.f.Kind
					if t.exist && t.old != nil && t.f.Kind != pgKMessage && sr.chance(12) {
						// an ill-typed node on an existing value: must be refused, the buffer unchanged
						nk = g.wrongKind(t.f.Kind)
						wf := *t.f
						wf.Kind = nk
						nd, nb = g.subValue(&wf, t.depth, nil)
					}
					opf = append(opf, fx(nb), fi(nk))
					ok, _ = noPanic(func() { ex, oerr = v.SetByPath(nd, ps...) })
				} else {
					ok, _ = noPanic(func() { oerr = v.UnsetByPath(ps...) })
					// often go on removing the elements of the same list / map until it is gone (drop-to-empty at any depth)
					if n := len(t.path); drain == nil && n >= 2 && t.path[n-1].T >= 3 && sr.chance(65) {
						drain = append([]c10Step{}, t.path[:n-1]...)
						if nops < oi+8 {
							nops = oi + 8
						}
					}
				}
			}
			var res []byte
			if okr, _ := noPanic(func() { res = append([]byte(nil), v.Raw()...) }); !okr {
				res = nil
				ok = false
			}
			acc := 0
			var nv *pgVal
			if ok {
				if d, e := c.dumpRef(res, s.Root); e == nil {
					acc = 1
					nv = d
				}
			}
			var wit []byte
			noPanic(func() { wit = witness.Raw() })
			opf = append(opf, fi(c10ErrClass(ok, oerr)), fb(ex), fx(res), fi(acc), fx(input), fx(wit), fx(prevAlias))
			ops = append(ops, opf...)
			done++
			if !ok || acc == 0 {
				break // the history ends at a panic / at bytes the reference rejects
			}
			if oerr != nil {
				// a failed op must leave the value unchanged; continue from the previous bytes
				v = generic.NewRootValue(c.Dyn, prev)
				continue
			}
			cur = nv
		}
		fl := append([]string{}, schemaF...)
		fl = append(fl, fx(b0), fi(done))
		fl = append(fl, ops...)
		out.emit(1001, fl...)
	}
}
