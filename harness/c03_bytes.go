//go:build verif

package main

// C03 at algorithm level — case 304: one t2j.BinaryConv.Do under the options the Gallina byte walk models
// (coq/model/T2JBytes.v t2j_walk; proved to refine the spec json_of), so that coq/model/Check03b.v can run the walk on the
// very bytes and compare its TEXT with the implementation's text (double lexemes by value).
// Classes: the C03 generator's descriptors x values (unknown fields of every shape, missing required fields, non-finite doubles,
// escape-relevant strings, binaries, int/string/double/bool map keys) x options {Int642String, ByteAsUint8, NoBase64Binary,
// DisallowUnknownField, UseNativeSkip, EnableValueMapping (api.js_conv fields), WriteDefaultField, WriteRequireField,
// WriteOptionalField (no effect without SetOptionalBitmap), EnableThriftBase with / without a BaseResp in the context,
// ConvertException (success field id 0 / exception fields)}; deeply nested lists / maps / structs; structs whose required fields sit at the
// word boundaries of the requires bitmap; bytes followed by garbage; truncated and corrupted encodings (outside C03: the
// checker reports a disagreement there as drift only).

import (
	"context"
	"fmt"
	"strings"

	"github.com/cloudwego/dynamicgo/conv"
	"github.com/cloudwego/dynamicgo/conv/t2j"
	"github.com/cloudwego/dynamicgo/thrift"
	"github.com/cloudwego/dynamicgo/thrift/base"
)

const (
	o3bWriteOptional = 1 << 11 // conv.Options.WriteOptionalField
	o3bPublishOpts   = 1 << 20 // harness only: the caller puts the options into the context (not part of the case)
)

func init() {
	base := generators["C03"]
	generators["C03"] = func(r *rng, n int) {
		base(r, n)
		genC03Bytes(r.fork(), n/5)
	}
}

func run03b(desc *thrift.TypeDescriptor, dfs []string, tb []byte, opts int) {
	co := conv.Options{
		Int642String:         opts&o3Int642String != 0,
		ByteAsUint8:          opts&o3ByteAsUint8 != 0,
		NoBase64Binary:       opts&o3NoBase64Binary != 0,
		DisallowUnknownField: opts&o3DisallowUnknown != 0,
		UseNativeSkip:        opts&o3UseNativeSkip != 0,
		EnableValueMapping:   opts&o3ValueMapping != 0,
		EnableThriftBase:     opts&o3ThriftBase != 0,
		ConvertException:     opts&o3ConvertException != 0,
		WriteDefaultField:    opts&o3WriteDefault != 0,
		WriteRequireField:    opts&o3WriteRequire != 0,
		WriteOptionalField:   opts&o3bWriteOptional != 0,
	}
	cv := t2j.NewBinaryConv(co)
	ctx := context.Background()
	if opts&o3bPublishOpts != 0 {
		// the caller may publish the options itself (value-mapping annotations read ByteAsUint8 from the context);
		// otherwise the converter does it
		ctx = context.WithValue(ctx, conv.CtxKeyConvOptions, co)
	}
	if opts&o3BaseInCtx != 0 {
		ctx = context.WithValue(ctx, conv.CtxKeyThriftRespBase, base.NewBaseResp())
	}
	opts &^= o3bPublishOpts
	src := append([]byte(nil), tb...)
	var outb []byte
	var err error
	ok, _ := noPanic(func() { outb, err = cv.Do(ctx, desc, src) })
	ec := errClass03(err)
	if !ok {
		ec = 3
	}
	if ec == 2 {
		outb = []byte(err.Error()) // ConvertException: the exception's JSON is the text of the error
	} else if ec != 0 {
		outb = nil
	}
	fields := []string{fi(opts)}
	fields = append(fields, dfs...)
	fields = append(fields, fx(tb), fi(ec), fx(outb))
	out.emit(304, fields...)
}

var escAliasPool = []string{"say \"hi\" ", "tab\t", "back\\slash", "ctl\x01", "nl\n", "q\"\\", "/sol", "\u00e9\"", "del\x7f"}

// copy the aliases the parsed descriptor carries into the abstract shape
func (g *gen03) syncAlias(t *Ty, d *thrift.TypeDescriptor) {
	switch t.K {
	case thrift.STRUCT:
		for _, f := range t.Fields {
			fd := d.Struct().FieldById(thrift.FieldID(f.ID))
			if fd == nil {
				die("C03 bytes: field %d missing in the descriptor", f.ID)
			}
			g.extra[f].alias = fd.Alias()
			g.syncAlias(f.T, fd.Type())
		}
	case thrift.MAP:
		g.syncAlias(t.Key, d.Key())
		g.syncAlias(t.Elem, d.Elem())
	case thrift.LIST, thrift.SET:
		g.syncAlias(t.Elem, d.Elem())
	}
}

func walkOpts(r *rng) int {
	opts := 0
	for b := 0; b < 5; b++ {
		if r.chance(30) {
			opts |= 1 << b
		}
	}
	if r.chance(35) {
		opts |= o3ValueMapping
	}
	if r.chance(25) {
		opts |= o3WriteDefault
	}
	if r.chance(25) {
		opts |= o3WriteRequire
	}
	if r.chance(15) {
		opts |= o3bWriteOptional
	}
	if r.chance(12) {
		opts |= o3ConvertException
	}
	if r.chance(25) {
		opts = 0
	}
	if r.chance(50) {
		opts |= o3bPublishOpts
	}
	return opts
}

// damage a valid encoding: truncation, a flipped byte, garbage appended
func damage03(r *rng, tb []byte) []byte {
	b := append([]byte(nil), tb...)
	switch r.intn(4) {
	case 0:
		if len(b) > 0 {
			b = b[:r.intn(len(b))]
		}
	case 1:
		if len(b) > 0 {
			b[r.intn(len(b))] ^= byte(1 << r.intn(8))
		}
	case 2:
		if len(b) > 0 {
			b[r.intn(len(b))] = []byte{0, 1, 2, 11, 12, 13, 15, 16, 18, 0x7f, 0x80, 0xff}[r.intn(12)]
		}
	default:
		b = append(b, r.bytes(1+r.intn(6))...)
	}
	return b
}

func genC03Bytes(r *rng, n int) {
	if n < 10 {
		return
	}
	nSpecial := genC03BytesSpecial(r.fork(), n/6)
	made := nSpecial
	for made < n {
		g := &gen03{tgen: newTgen(r.fork()), extra: map[*Fld]*fx03{}}
		g.maxDepth = 3 + g.r.intn(2)
		g.allowReq = true
		if g.r.chance(25) {
			g.keyKinds = append(g.keyKinds, thrift.BOOL, thrift.DOUBLE)
		}
		root := g.genStruct(0)
		// thrift base: one extra root field of type base.BaseResp (as genC03 does)
		useBase := g.r.chance(25)
		var baseFld *Fld
		if useBase {
			g.base = &Ty{K: thrift.STRUCT, Name: "BaseResp", Fields: []*Fld{
				{ID: 1, Name: "StatusMessage", T: &Ty{K: thrift.STRING}},
				{ID: 2, Name: "StatusCode", T: &Ty{K: thrift.I32}},
				{ID: 3, Name: "Extra", T: &Ty{K: thrift.MAP, Key: &Ty{K: thrift.STRING}, Elem: &Ty{K: thrift.STRING}}, Req: 2}}}
			g.structs = append(g.structs, g.base)
			id := int16(255)
			for _, f := range root.Fields {
				if f.ID == id {
					id = 254
				}
			}
			for _, f := range root.Fields {
				if f.ID == id {
					useBase = false
				}
			}
			if useBase {
				baseFld = &Fld{ID: id, Name: "BaseResp", T: g.base}
				root.Fields = append(root.Fields, baseFld)
			} else {
				g.structs = g.structs[:len(g.structs)-1]
				g.base = nil
			}
		}
		// a success field with id 0 (ConvertException treats every other id as an exception)
		if g.r.chance(30) && len(root.Fields) > 0 && root.Fields[0] != baseFld {
			root.Fields[0].ID = 0
		}
		g.decorate(root)
		if g.r.chance(30) {
			g.typedefs()
		}
		if useBase {
			g.extra[baseFld].respBase = true
			g.extra[baseFld].jsconv = false
			for _, f := range g.base.Fields {
				g.extra[f].jsconv = false
				g.extra[f].alias = f.Name
			}
		}
		escAlias := g.r.chance(20)
		if escAlias {
			// member keys that need escaping in a JSON string (api.key takes any IDL string literal)
			for _, s := range g.structs {
				for _, f := range s.Fields {
					if s != g.base && g.r.chance(50) {
						g.extra[f].alias = fmt.Sprintf("%s%d", escAliasPool[g.r.intn(len(escAliasPool))], f.ID)
					}
				}
			}
		}
		rootTy := root
		if !useBase && g.r.chance(12) {
			switch g.r.intn(4) {
			case 0:
				rootTy = &Ty{K: thrift.LIST, Elem: root}
			case 1:
				rootTy = &Ty{K: thrift.MAP, Key: &Ty{K: g.keyKinds[g.r.intn(len(g.keyKinds))]}, Elem: root}
			case 2:
				rootTy = &Ty{K: thrift.SET, Elem: &Ty{K: thrift.STRING, Binary: g.r.bool()}}
			default:
				rootTy = &Ty{K: scalarKinds[g.r.intn(len(scalarKinds))]}
			}
		}
		idl, inc := g.idl03(rootTy, useBase)
		desc, err := parse03(idl, inc, thrift.Options{EnableThriftBase: useBase})
		if err != nil {
			die("C03 bytes: IDL does not parse: %v\n%s", err, idl)
		}
		if escAlias {
			g.syncAlias(rootTy, desc) // the IDL parser's reading of the literal is what the converter writes
		}
		g.baseFromDesc(rootTy, desc)
		var dfs []string
		g.descFields(rootTy, &dfs)
		for k := 0; k < 5 && made < n; k++ {
			vo := &opt03{nonFinite: g.r.chance(12), badUTF8: g.r.chance(10), unknown: g.r.chance(50), dropRequired: g.r.chance(10)}
			val := g.genValue03(rootTy, 0, vo)
			tb := val.encode(nil)
			opts := walkOpts(g.r)
			if useBase && g.r.chance(60) {
				opts |= o3ThriftBase
				if g.r.chance(75) {
					opts |= o3BaseInCtx
				}
			}
			run03b(desc, dfs, tb, opts)
			made++
			if g.r.chance(12) && made < n {
				// Do ignores what follows the value; the walk returns it as the rest
				run03b(desc, dfs, append(append([]byte(nil), tb...), g.r.bytes(1+g.r.intn(5))...), opts)
				made++
			}
			if g.r.chance(15) && made < n {
				run03b(desc, dfs, damage03(g.r, tb), opts&^o3UseNativeSkip)
				made++
			}
		}
	}
}

// hand-made shapes: deep nesting, bitmap word boundaries, unknown fields of every wire type between known ones
func genC03BytesSpecial(r *rng, budget int) int {
	made := 0
	g := &gen03{tgen: newTgen(r), extra: map[*Fld]*fx03{}}
	emit := func(rootTy *Ty, v *Val, opts int) {
		idl, inc := g.idl03(rootTy, false)
		desc, err := parse03(idl, inc, thrift.Options{})
		if err != nil {
			die("C03 bytes: IDL does not parse: %v\n%s", err, idl)
		}
		var dfs []string
		g.descFields(rootTy, &dfs)
		run03b(desc, dfs, v.encode(nil), opts)
		made++
	}
	reset := func() {
		g.structs = nil
		g.extra = map[*Fld]*fx03{}
	}
	newStruct := func(name string, fl ...*Fld) *Ty {
		t := &Ty{K: thrift.STRUCT, Name: name, Fields: fl}
		g.structs = append(g.structs, t)
		for _, f := range fl {
			g.extra[f] = &fx03{alias: f.Name}
		}
		return t
	}
	i32 := &Ty{K: thrift.I32}
	str := &Ty{K: thrift.STRING}

	// 1. nested lists / sets / maps / structs, depth 2..40
	for _, d := range []int{2, 3, 7, 16, 40} {
		if made >= budget {
			return made
		}
		// list<set<list<...<i32>>>>
		reset()
		t := i32
		v := &Val{T: i32, I: int64(d)}
		for i := 0; i < d; i++ {
			k := thrift.LIST
			if i%2 == 1 {
				k = thrift.SET
			}
			nt := &Ty{K: k, Elem: t}
			nv := &Val{T: nt, Elems: []*Val{v}}
			if i == 0 {
				nv.Elems = append(nv.Elems, &Val{T: i32, I: -1}, &Val{T: i32, I: 1 << 31 >> 1})
			}
			t, v = nt, nv
		}
		w := newStruct("W", &Fld{ID: 1, Name: "l", T: t})
		emit(w, &Val{T: w, FIDs: []int16{1}, Fields: []*Val{v}}, walkOpts(r))
		// map<i64, map<string, ... double>>
		reset()
		mt := &Ty{K: thrift.DOUBLE}
		mv := &Val{T: mt, D: 0x3ff8000000000000}
		for i := 0; i < d; i++ {
			kt := &Ty{K: thrift.I64}
			kv := &Val{T: kt, I: int64(i) - 2}
			if i%2 == 1 {
				kt = str
				kv = &Val{T: str, S: []byte(fmt.Sprintf("k\"%d", i))}
			}
			nt := &Ty{K: thrift.MAP, Key: kt, Elem: mt}
			mt, mv = nt, &Val{T: nt, Keys: []*Val{kv}, Elems: []*Val{mv}}
		}
		emit(mt, mv, walkOpts(r)|o3Int642String)
		// struct chain S0{1: S1 f; 2: i32 x} ... innermost {}
		reset()
		var inner *Ty
		var iv *Val
		for i := d; i >= 0; i-- {
			name := fmt.Sprintf("N%d", i)
			if inner == nil {
				inner = newStruct(name)
				iv = &Val{T: inner}
				continue
			}
			f1 := &Fld{ID: 1, Name: "f", T: inner, Req: i % 3}
			f2 := &Fld{ID: 2, Name: "x", T: i32}
			nt := newStruct(name, f1, f2)
			iv = &Val{T: nt, FIDs: []int16{2, 1}, Fields: []*Val{{T: i32, I: int64(i)}, iv}}
			inner = nt
		}
		// idl03 writes g.structs in reverse order of creation: declare inner structs first
		for a, b := 0, len(g.structs)-1; a < b; a, b = a+1, b-1 {
			g.structs[a], g.structs[b] = g.structs[b], g.structs[a]
		}
		emit(inner, iv, walkOpts(r))
	}

	// 2. required / default / optional fields at the word boundaries of the requires bitmap
	ids := []int16{1, 2, 62, 63, 64, 65, 127, 128, 129, 255, 256, 257, 511, 512, 1000, 4095, 4096, 32767}
	for rep := 0; rep < 24 && made < budget; rep++ {
		reset()
		var fl []*Fld
		for _, id := range ids {
			if r.chance(70) {
				fl = append(fl, &Fld{ID: id, Name: fmt.Sprintf("r%d", id), T: i32, Req: []int{1, 1, 0, 2}[r.intn(4)]})
			}
		}
		if len(fl) == 0 {
			fl = append(fl, &Fld{ID: 64, Name: "r64", T: i32, Req: 1})
		}
		s := newStruct("B", fl...)
		v := &Val{T: s}
		dropOne := r.chance(60)
		dropped := false
		for _, j := range shuffled(r, len(fl)) {
			f := fl[j]
			if f.Req == 1 && dropOne && !dropped && r.chance(40) {
				dropped = true
				continue
			}
			if f.Req != 1 && r.chance(40) {
				continue
			}
			v.FIDs = append(v.FIDs, f.ID)
			v.Fields = append(v.Fields, &Val{T: i32, I: int64(f.ID)})
			if r.chance(20) { // a field twice on the wire: both become members
				v.FIDs = append(v.FIDs, f.ID)
				v.Fields = append(v.Fields, &Val{T: i32, I: -int64(f.ID)})
			}
		}
		emit(s, v, walkOpts(r))
	}

	// 3. unknown fields of every wire type between / before / after the known ones, also nested ones
	for rep := 0; rep < 30 && made < budget; rep++ {
		reset()
		s := newStruct("U", &Fld{ID: 10, Name: "a", T: str}, &Fld{ID: 20, Name: "b", T: &Ty{K: thrift.LIST, Elem: i32}}, &Fld{ID: 30, Name: "c", T: &Ty{K: thrift.I64}, Req: 2})
		v := &Val{T: s}
		sub := &tgen{r: r, maxDepth: 3, maxFields: 4, keyKinds: g.keyKinds}
		addU := func() {
			for k := r.intn(3); k > 0; k-- {
				ut := sub.genType(0)
				id := int16(r.intn(65536) - 32768) // negative ids are unknown too
				if id == 10 || id == 20 || id == 30 {
					id = 11
				}
				v.FIDs = append(v.FIDs, id)
				v.Fields = append(v.Fields, sub.genValue(ut, 1))
			}
		}
		addU()
		v.FIDs = append(v.FIDs, 20)
		v.Fields = append(v.Fields, &Val{T: s.Fields[1].T, Elems: []*Val{{T: i32, I: 1}, {T: i32, I: 2}}})
		addU()
		v.FIDs = append(v.FIDs, 10)
		v.Fields = append(v.Fields, &Val{T: str, S: []byte(strings.Repeat("x\n", r.intn(4)))})
		addU()
		if r.bool() {
			v.FIDs = append(v.FIDs, 30)
			v.Fields = append(v.Fields, &Val{T: s.Fields[2].T, I: int64(r.u64())})
			addU()
		}
		emit(s, v, walkOpts(r))
	}
	return made
}

func shuffled(r *rng, n int) []int {
	p := make([]int, n)
	for i := range p {
		p[i] = i
	}
	for i := n - 1; i > 0; i-- {
		j := r.intn(i + 1)
		p[i], p[j] = p[j], p[i]
	}
	return p
}
