//go:build verif

package main

import (
	"context"
	"fmt"
	"strings"

	"github.com/cloudwego/dynamicgo/proto"
)

// Generated-definition checks for gen/Gen_protokind.v and the kind functions of gen/Gen_proto.v (ids 1591 under C15, 791 under C07,
// 2091 under C20; one checker).  The REAL proto.Type / proto.TypeDescriptor methods are run on
//   kind 0: every byte value t: IsPacked (or panic), TypeToKind (or panic), NeedVarint, IsInt, Valid, Kind2Wire[int8(t)],
//           FromProtoKindToType(int8(t), isList, isMap)
//   kind 1: TypeDescriptor{typ, elem.typ, unpacked} built from the atoms: IsPacked, WireType (or panic), IsMap, IsList
//   kind 2: the descriptors dynamicgo builds from an IDL with every scalar kind x {no option, packed=true, packed=false}, maps,
//           messages, enums: the atoms of the real descriptor and its IsPacked / WireType
func init() {
	for _, p := range []struct {
		prop string
		id   int
	}{{"C15", 1591}, {"C07", 791}, {"C20", 2091}} {
		base, id := generators[p.prop], p.id
		generators[p.prop] = func(r *rng, n int) {
			genProtoKinds(g2cRng(r), id)
			base(r, n)
		}
	}
}

// value or panic marker: (ok, v)
func tryInt(f func() int) (int, int) {
	v := 0
	ok, _ := noPanic(func() { v = f() })
	if !ok {
		return 0, 0
	}
	return 1, v
}

func genProtoKinds(r *rng, id int) {
	for t := 0; t < 256; t++ {
		ty := proto.Type(t)
		pok, pv := tryInt(func() int { return b2i(ty.IsPacked()) })
		kok, kv := tryInt(func() int { return int(ty.TypeToKind()) })
		k := proto.ProtoKind(int8(t))
		out.emit(id, fi(0), fi(t), fi(pok), fi(pv), fi(kok), fi(kv), fi(b2i(ty.NeedVarint())), fi(b2i(ty.IsInt())), fi(b2i(ty.Valid())),
			fi(int(proto.Kind2Wire[k])), fi(int(proto.FromProtoKindToType(k, false, false))), fi(int(proto.FromProtoKindToType(k, true, false))),
			fi(int(proto.FromProtoKindToType(k, false, true))), fi(int(proto.FromProtoKindToType(k, true, true))))
	}
	tys := []int{}
	for t := 0; t <= 21; t++ {
		tys = append(tys, t)
	}
	tys = append(tys, 127, 128, 255, r.intn(256), r.intn(256))
	for _, t := range tys {
		for _, e := range tys {
			for u := 0; u < 2; u++ {
				td := proto.VerifTypeDescriptor(uint8(t), uint8(e), u == 1)
				pok, pv := tryInt(func() int { return b2i(td.IsPacked()) })
				wok, wv := tryInt(func() int { return int(td.WireType()) })
				out.emit(id, fi(1), fi(t), fi(e), fi(u), fi(pok), fi(pv), fi(wok), fi(wv), fi(b2i(td.IsMap())), fi(b2i(td.IsList())))
			}
		}
	}
	// real descriptors
	scalars := []string{"double", "float", "int64", "uint64", "int32", "fixed64", "fixed32", "bool", "string", "bytes", "uint32",
		"sfixed32", "sfixed64", "sint32", "sint64", "Color", "Inner"}
	var sb strings.Builder
	sb.WriteString("syntax = \"proto3\";\npackage g;\nenum Color { RED = 0; BLUE = 1; }\nmessage Inner { int32 a = 1; }\nmessage M {\n")
	num := 1
	for _, s := range scalars {
		fmt.Fprintf(&sb, " %s s%d = %d;\n", s, num, num)
		num++
		fmt.Fprintf(&sb, " repeated %s r%d = %d;\n", s, num, num)
		num++
		if s != "string" && s != "bytes" && s != "Inner" {
			fmt.Fprintf(&sb, " repeated %s p%d = %d [packed = true];\n", s, num, num)
			num++
			fmt.Fprintf(&sb, " repeated %s u%d = %d [packed = false];\n", s, num, num)
			num++
		}
		if s != "double" && s != "float" && s != "bytes" && s != "Color" && s != "Inner" {
			fmt.Fprintf(&sb, " map<%s, %s> m%d = %d;\n", s, scalars[r.intn(len(scalars))], num, num)
			num++
		}
	}
	sb.WriteString("}\nservice S { rpc Call(M) returns (M); }\n")
	svc, err := proto.NewDescritorFromContent(context.Background(), "g.proto", sb.String(), map[string]string{})
	if err != nil || svc == nil {
		die("g15_kinds: fixed IDL does not parse: %v", err)
	}
	md := svc.LookupMethodByName("Call").Input().Message()
	var walk func(t *proto.TypeDescriptor, depth int)
	walk = func(t *proto.TypeDescriptor, depth int) {
		if t == nil || depth > 3 {
			return
		}
		typ, et, unp := t.VerifAtoms()
		pok, pv := tryInt(func() int { return b2i(t.IsPacked()) })
		wok, wv := tryInt(func() int { return int(t.WireType()) })
		out.emit(id, fi(2), fi(typ), fi(et), fi(b2i(unp)), fi(pok), fi(pv), fi(wok), fi(wv), fi(b2i(t.IsMap())), fi(b2i(t.IsList())))
		walk(t.Key(), depth+1)
		walk(t.Elem(), depth+1)
	}
	for n := 1; n < num; n++ {
		f := md.ByNumber(proto.FieldNumber(n))
		if f == nil {
			die("g15_kinds: field %d missing", n)
		}
		walk(f.Type(), 0)
	}
}
