//go:build verif

package main

import (
	"fmt"
	"strings"

	"github.com/cloudwego/dynamicgo/thrift"
	"github.com/cloudwego/dynamicgo/thrift/generic"
)

// C04 corpus + the class that produced it.
//
// Three histories of the thorough tier (old seed stream) on which implementation and model disagreed (401:203, 401:107,
// 401:103).  Same shape each time: a declared field is unset, a node of ANOTHER type is set at the same path through the Value
// API (so it is INSERTED: the value stops conforming to its descriptor; outside the API contract), and a later typed set of
// that field is decided by the code on the DECLARED type (Value.GetByPath types the element by the descriptor) and by the
// model on the WIRE type.  The judge now ends a history at such an insertion (Check04.declared_mismatch, witness = the
// initial value).  The three recorded case lines are judged first in every run, then the class that reaches the shape is
// generated against the current implementation.
var c04Corpus = []string{
	// 401:203  BOOL inserted where I08 is declared, then a BOOL set: the code compares with the declared I08 and fails
	"401 n12 x032c4d030200400100 n4 n3 n1 n6 x66315f3634 n64 n2 x01 n0 n1 x032c4d030200400100 n3 n4 n1 n6 x66315f3131333431 n11341 n3 x03 n0 n0 x0200400100 n3 n3 n1 n1 n11341 n2 x01 n0 n0 x022c4d010200400100 n3 n3 n1 n1 n11341 n2 x00 n1 n1 x022c4d010200400100 n3",
	// 401:107  DOUBLE inserted where I64 is declared, then an I64 set: the code accepts it (declared type), the model saw a DOUBLE
	c04Corpus107,
	// 401:103  the same two levels down, through a raw map key and a field NAME (BYTE inserted where BOOL is declared)
	c04Corpus103,
}

func init() {
	base := generators["C04"]
	generators["C04"] = func(r *rng, n int) {
		for _, l := range c04Corpus {
			f := strings.Fields(l)
			out.emit(401, f[1:]...)
		}
		base(r, n)
		genC04Declared(r.fork(), n)
		genC04Required(r.fork(), n)
	}
}

// the field a path of field / index / key steps ends in (nil when its last step is not a declared field)
func c04FldAt(root *Ty, p []Step) *Fld {
	if len(p) == 0 || p[len(p)-1].Kind != 1 {
		return nil
	}
	parent := typeAt(root, p[:len(p)-1])
	if parent == nil || parent.K != thrift.STRUCT {
		return nil
	}
	for _, f := range parent.Fields {
		if int64(f.ID) == p[len(p)-1].N {
			return f
		}
	}
	return nil
}

// Value API, last step a field NAME, over descriptors that declare required / optional / default fields at every level
// (root, nested struct, struct below a list / set, struct below a map): unset the field by name, put it back, unset it by id
func genC04Required(r *rng, n int) {
	nh := n / 40
	if nh < 6 {
		nh = 6
	}
	for hi := 0; hi < nh; hi++ {
		g := newTgen(r.fork())
		g.maxDepth = 3
		g.allowReq = true
		root := g.genStruct(0)
		// structs below containers, so that named fields exist under a list and under a map
		lid, mid := int16(21000+r.intn(500)), int16(22000+r.intn(500))
		root.Fields = append(root.Fields,
			&Fld{ID: lid, Name: fmt.Sprintf("ls_%d", lid), T: &Ty{K: thrift.LIST, Elem: g.genStruct(2)}, Req: r.intn(3)},
			&Fld{ID: mid, Name: fmt.Sprintf("ms_%d", mid), T: &Ty{K: thrift.MAP, Key: &Ty{K: thrift.STRING}, Elem: g.genStruct(2)}, Req: r.intn(3)})
		idl := g.idl(root)
		desc, err := parseThrift(idl, thrift.Options{})
		if err != nil {
			die("generated IDL does not parse: %v\n%s", err, idl)
		}
		val := g.genValue(root, 0)
		buf := val.encode(nil)
		var all [][]Step
		val.allPaths(nil, &all, 300, r)
		var req, other [][]Step
		for _, p := range all {
			if f := c04FldAt(root, p); f != nil {
				if f.Req == 1 {
					req = append(req, p)
				} else {
					other = append(other, p)
				}
			}
		}
		cands := req
		if len(cands) == 0 || r.chance(25) {
			cands = other
		}
		if len(cands) == 0 {
			continue
		}
		value := generic.NewValue(desc, append([]byte(nil), buf...))
		fields := []string{fi(int(thrift.STRUCT)), fx(buf)}
		var emitted []string
		done := 0
		for k, m := 0, 1+r.intn(3); k < m; k++ {
			p := cands[r.intn(len(cands))]
			for try := 0; try < 3 && len(p) < 2; try++ {
				p = cands[r.intn(len(cands))] // prefer fields below the root
			}
			f := c04FldAt(root, p)
			type op struct {
				kind   int
				byName bool
			}
			for _, o := range []op{{4, true}, {3, r.bool()}, {4, r.chance(30)}} {
				sub := g.genValue(f.T, 2)
				sb := sub.encode(nil)
				gp := toPath(p)
				pEmit := p
				byName := 0
				if o.byName {
					if np, changed := nameSteps(root, p, r); changed {
						gp = toPath(np)
						pEmit = np
						if len(np) >= 3 && np[len(np)-1].Kind == 6 {
							byName = 4
						}
					}
				}
				var exist bool
				var e error
				ok, _ := noPanic(func() {
					if o.kind == 3 {
						exist, e = value.SetByPath(generic.Value{Node: generic.NewNode(f.T.K, append([]byte(nil), sb...)), Desc: descFor(desc, p)}, gp...)
					} else {
						e = value.UnsetByPath(gp...)
					}
				})
				ei := 0
				if !ok {
					ei = 3
				} else if e != nil {
					ei = 1
				}
				emitted = append(emitted, fi(o.kind))
				emitted = append(emitted, pathFields(pEmit)...)
				emitted = append(emitted, fi(int(f.T.K)), fx(sb), fi(ei), fb(exist), fx(value.Raw()), fi(1|declBit(root, p)|byName))
				done++
				if !ok {
					break
				}
			}
		}
		fields = append(fields, fi(done))
		fields = append(fields, emitted...)
		out.emit(401, fields...)
	}
}

// same-width type the wrong-type classes use
func c04SwapType(t *Ty) *Ty {
	switch t.K {
	case thrift.I64:
		return &Ty{K: thrift.DOUBLE}
	case thrift.DOUBLE:
		return &Ty{K: thrift.I64}
	case thrift.BOOL:
		return &Ty{K: thrift.I08}
	case thrift.I08:
		return &Ty{K: thrift.BOOL}
	case thrift.LIST:
		return &Ty{K: thrift.SET, Elem: t.Elem}
	case thrift.SET:
		return &Ty{K: thrift.LIST, Elem: t.Elem}
	}
	return &Ty{K: thrift.I16}
}

// histories "unset a declared field, set a node of another type there (an insertion), go on editing that field":
// Value API (id- and name-addressed, top level and below map entries / list elements) and Node API
func genC04Declared(r *rng, n int) {
	nh := n / 40
	if nh < 6 {
		nh = 6
	}
	for hi := 0; hi < nh; hi++ {
		g := newTgen(r.fork())
		g.maxDepth = 3
		g.allowReq = true
		root := g.genStruct(0)
		if r.chance(40) {
			kt := &Ty{K: thrift.STRING}
			if r.bool() {
				kt = &Ty{K: thrift.I32}
			}
			id := int16(20000 + r.intn(10000))
			root.Fields = append(root.Fields, &Fld{ID: id, Name: fmt.Sprintf("mx_%d", id), T: &Ty{K: thrift.MAP, Key: kt, Elem: g.genStruct(2)}})
		}
		idl := g.idl(root)
		desc, err := parseThrift(idl, thrift.Options{})
		if err != nil {
			die("generated IDL does not parse: %v\n%s", err, idl)
		}
		val := g.genValue(root, 0)
		buf := val.encode(nil)
		// a present element addressed by a FIELD step (the deeper the better)
		var all [][]Step
		val.allPaths(nil, &all, 200, r)
		var cands [][]Step
		for _, p := range all {
			if len(p) > 0 && p[len(p)-1].Kind == 1 && typeAt(root, p) != nil {
				cands = append(cands, p)
			}
		}
		if len(cands) == 0 {
			continue
		}
		p := cands[r.intn(len(cands))]
		for try := 0; try < 4 && len(p) < 2; try++ {
			p = cands[r.intn(len(cands))]
		}
		declT := typeAt(root, p)
		wrongT := c04SwapType(declT)
		typed := r.chance(75)
		node := generic.NewNode(thrift.STRUCT, append([]byte(nil), buf...))
		value := generic.NewValue(desc, append([]byte(nil), buf...))
		type op struct {
			kind int
			t    *Ty
		}
		ops := []op{}
		if r.chance(40) {
			ops = append(ops, op{1, declT})
		}
		ops = append(ops, op{2, declT}, op{1, wrongT})
		for k, m := 0, 1+r.intn(3); k < m; k++ {
			switch r.intn(4) {
			case 0:
				ops = append(ops, op{1, wrongT}) // the inserted (wire) type again
			case 1:
				ops = append(ops, op{1, declT}) // the declared type
			case 2:
				ops = append(ops, op{2, declT})
			default:
				ops = append(ops, op{1, c04SwapType(wrongT)})
			}
		}
		fields := []string{fi(int(thrift.STRUCT)), fx(buf)}
		var emitted []string
		done := 0
		for _, o := range ops {
			sub := g.genValue(o.t, 2)
			sb := sub.encode(nil)
			gp := toPath(p)
			pEmit := p
			byName := 0
			if typed && r.chance(50) {
				if np, changed := nameSteps(root, p, r); changed {
					gp = toPath(np)
					pEmit = np
					if len(np) >= 3 && np[len(np)-1].Kind == 6 {
						byName = 4
					}
				}
			}
			kind := o.kind
			var exist bool
			var e error
			ok, _ := noPanic(func() {
				switch {
				case typed && kind == 1:
					exist, e = value.SetByPath(generic.Value{Node: generic.NewNode(o.t.K, append([]byte(nil), sb...)), Desc: descFor(desc, p)}, gp...)
				case typed:
					e = value.UnsetByPath(gp...)
				case kind == 1:
					exist, e = node.SetByPath(generic.NewNode(o.t.K, append([]byte(nil), sb...)), gp...)
				default:
					e = node.UnsetByPath(gp...)
				}
			})
			res := node.Raw()
			if typed {
				res = value.Raw()
				kind += 2
			}
			ei := 0
			if !ok {
				ei = 3
			} else if e != nil {
				ei = 1
			}
			emitted = append(emitted, fi(kind))
			emitted = append(emitted, pathFields(pEmit)...)
			emitted = append(emitted, fi(int(o.t.K)), fx(sb), fi(ei), fb(exist), fx(res), fi(1|declBit(root, p)|byName))
			done++
			if !ok {
				break
			}
		}
		fields = append(fields, fi(done))
		fields = append(fields, emitted...)
		out.emit(401, fields...)
	}
}
