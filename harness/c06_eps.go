//go:build verif

// C06: the read-side entry points and the job list (entry point x input).
package main

import (
	"context"
	"errors"
	"fmt"
	"strings"
	"unsafe"

	"github.com/cloudwego/dynamicgo/conv"
	"github.com/cloudwego/dynamicgo/conv/j2p"
	"github.com/cloudwego/dynamicgo/conv/j2t"
	"github.com/cloudwego/dynamicgo/conv/p2j"
	"github.com/cloudwego/dynamicgo/conv/t2j"
	"github.com/cloudwego/dynamicgo/proto"
	pbinary "github.com/cloudwego/dynamicgo/proto/binary"
	pgeneric "github.com/cloudwego/dynamicgo/proto/generic"
	"github.com/cloudwego/dynamicgo/proto/protowire"
	"github.com/cloudwego/dynamicgo/thrift"
	"github.com/cloudwego/dynamicgo/thrift/base"
	"github.com/cloudwego/dynamicgo/thrift/generic"
)

func ptrOf(b []byte) unsafe.Pointer { return unsafe.Pointer(&b[0]) }

// a slice a read API handed back must lie inside the buffer it was given: [start, start+len) within [0, len(buf)]
func checkInside(buf []byte, raw []byte) {
	if len(raw) == 0 || len(buf) == 0 {
		return
	}
	start := int64(uintptr(unsafe.Pointer(&raw[0]))) - int64(uintptr(unsafe.Pointer(&buf[0])))
	if start < 0 || start+int64(len(raw)) > int64(len(buf)) {
		panic(fmt.Sprintf("sub node outside the caller's buffer: span [%d,%d) of a %d-byte buffer", start, start+int64(len(raw)), len(buf)))
	}
}

// read through everything a call returned: a string / []byte header that points outside the input buffer
// (length prefix trusted without a bounds test) faults on the guard page here
var touchSink byte

func touchBytes(n int, at func(i int) byte) {
	for i := 0; i < n && i < 1<<17; i += 256 {
		touchSink += at(i)
	}
	if n > 0 && n < 1<<17 {
		touchSink += at(n - 1)
	}
}

func touch(v interface{}, depth int) {
	if depth > 64 {
		return
	}
	switch x := v.(type) {
	case string:
		touchBytes(len(x), func(i int) byte { return x[i] })
	case []byte:
		touchBytes(len(x), func(i int) byte { return x[i] })
	case []interface{}:
		for _, e := range x {
			touch(e, depth+1)
		}
	case map[string]interface{}:
		for k, e := range x {
			touch(k, depth+1)
			touch(e, depth+1)
		}
	case map[int]interface{}:
		for _, e := range x {
			touch(e, depth+1)
		}
	case map[interface{}]interface{}:
		for k, e := range x {
			touch(k, depth+1)
			touch(e, depth+1)
		}
	case map[thrift.FieldID]interface{}:
		for _, e := range x {
			touch(e, depth+1)
		}
	case map[proto.FieldNumber]interface{}:
		for _, e := range x {
			touch(e, depth+1)
		}
	case *map[string]interface{}:
		touch(*x, depth+1)
	case *map[int]interface{}:
		touch(*x, depth+1)
	case *map[interface{}]interface{}:
		touch(*x, depth+1)
	case *[]interface{}:
		touch(*x, depth+1)
	case *map[thrift.FieldID]interface{}:
		touch(*x, depth+1)
	}
}

type c06ctx struct {
	tmsgs  []*tmsg
	pmsgs  []*pmsg
	cdescs []*thrift.TypeDescriptor // container descriptors: list/set of every fixed-width type, two maps, a struct
	cvals  []c06input               // their well-formed encodings (msg = index into cdescs)
	bmsgs  []*tmsg  // messages with a base.BaseResp field, descriptors parsed with EnableThriftBase
	t2jb   t2j.BinaryConv
	tjson  [][]byte // JSON of thrift message i (t2j of the valid message)
	pjson  [][]byte
	topts  []*generic.Options
	t2j    t2j.BinaryConv
	j2t    j2t.BinaryConv
	p2j    p2j.BinaryConv
	j2p    j2p.BinaryConv
	bg     context.Context
}

type c06ep struct {
	name string
	run  func(c *c06ctx, j c06job, in []byte) error
}

var errNode = errors.New("error node")

var thriftAllTypes = []thrift.Type{thrift.BOOL, thrift.I08, thrift.DOUBLE, thrift.I16, thrift.I32, thrift.I64, thrift.STRING, thrift.STRUCT, thrift.MAP, thrift.SET, thrift.LIST}

func nodeErr(n generic.Node) error {
	if n.IsError() {
		return errNode
	}
	return nil
}

// the declared thrift type of job j (param >= 0: explicit type; else the root struct)
func jobType(j c06job) thrift.Type {
	if j.param&0xff > 0 {
		return thrift.Type(j.param & 0xff)
	}
	return thrift.STRUCT
}

func newTNode(t thrift.Type, in []byte) generic.Node {
	return generic.NewNode(t, in)
}

var c06eps = []c06ep{
	{"thrift.SkipGo", func(c *c06ctx, j c06job, in []byte) error {
		p := thrift.BinaryProtocol{Buf: in}
		return p.SkipGo(jobType(j), thrift.MaxSkipDepth)
	}},
	{"thrift.SkipNative", func(c *c06ctx, j c06job, in []byte) error {
		p := thrift.BinaryProtocol{Buf: in}
		e := p.SkipNative(jobType(j), thrift.MaxSkipDepth)
		if p.Read > len(in) || p.Read < 0 {
			panic("cursor outside the buffer after SkipNative")
		}
		return e
	}},
	{"thrift.ReadAny", func(c *c06ctx, j c06job, in []byte) error {
		p := thrift.BinaryProtocol{Buf: in}
		v, e := p.ReadAny(jobType(j), j.param>>8&1 == 1, false)
		touch(v, 0)
		if p.Read > len(in) {
			panic("cursor outside the buffer after ReadAny")
		}
		return e
	}},
	{"thrift.ReadAnyWithDesc", func(c *c06ctx, j c06job, in []byte) error {
		p := thrift.BinaryProtocol{Buf: in}
		v, e := p.ReadAnyWithDesc(c.tmsgs[j.in.msg].desc, false, j.param>>8&1 == 1, j.param>>8&2 == 2, j.param>>8&4 == 4)
		touch(v, 0)
		return e
	}},
	{"thrift.ReadStringWithDesc", func(c *c06ctx, j c06job, in []byte) error {
		p := thrift.BinaryProtocol{Buf: in}
		var buf []byte
		return p.ReadStringWithDesc(c.tmsgs[j.in.msg].desc, &buf, false, j.param>>8&2 == 2, true)
	}},
	{"thrift.ReadScalars", func(c *c06ctx, j c06job, in []byte) error {
		var last error
		for k := 0; k < 9; k++ {
			p := thrift.BinaryProtocol{Buf: in}
			switch k {
			case 0:
				var x string
				x, last = p.ReadString(false)
				touch(x, 0)
			case 1:
				var x string
				x, last = p.ReadString(true)
				touch(x, 0)
			case 2:
				var x []byte
				x, last = p.ReadBinary(false)
				touch(x, 0)
			case 3:
				var x []byte
				x, last = p.ReadBinary(true)
				touch(x, 0)
			case 4:
				_, last = p.ReadI64()
			case 5:
				_, _, _, last = p.ReadMapBegin()
			case 6:
				_, _, last = p.ReadListBegin()
			case 7:
				_, _, _, last = p.ReadFieldBegin()
			case 8:
				_, _, _, last = p.ReadMessageBegin(true)
			}
			if p.Read > len(in) {
				panic("cursor outside the buffer")
			}
		}
		return last
	}},
	{"thrift.UnwrapBinaryMessage", func(c *c06ctx, j c06job, in []byte) error {
		name, _, _, _, body, e := thrift.UnwrapBinaryMessage(in)
		touch(name, 0)
		touch(body, 0)
		if e == nil && len(body) > len(in) {
			panic("body longer than the message")
		}
		return e
	}},
	{"generic.Node.Interface", func(c *c06ctx, j c06job, in []byte) error {
		v, e := newTNode(jobType(j), in).Interface(c.topts[j.param>>8&3])
		touch(v, 0)
		return e
	}},
	{"generic.Node.List/Map", func(c *c06ctx, j c06job, in []byte) error {
		n := newTNode(jobType(j), in)
		o := c.topts[0]
		var e error
		switch jobType(j) {
		case thrift.LIST, thrift.SET:
			var v interface{}
			v, e = n.List(o)
			touch(v, 0)
		case thrift.MAP:
			var v1, v2, v3 interface{}
			var e2, e3 error
			v1, e = n.StrMap(o)
			v2, e2 = n.IntMap(o)
			v3, e3 = n.InterfaceMap(o)
			touch(v1, 0)
			touch(v2, 0)
			touch(v3, 0)
			if e == nil {
				e = e2
			}
			if e == nil {
				e = e3
			}
		default:
			var v interface{}
			v, e = n.Interface(o)
			touch(v, 0)
		}
		return e
	}},
	{"generic.Node.Children", func(c *c06ctx, j c06job, in []byte) error {
		var kids []generic.PathNode
		return newTNode(jobType(j), in).Children(&kids, j.param&0x100 != 0, c.topts[j.param>>9&3])
	}},
	{"generic.Node.GetByPath", func(c *c06ctx, j c06job, in []byte) error {
		m := c.tmsgs[j.in.msg]
		root := newTNode(thrift.STRUCT, in)
		var last error
		for _, p := range m.paths {
			n := root.GetByPath(toPath(p)...)
			last = nodeErr(n)
			if last == nil {
				// touch the result: raw bytes must lie inside the input
				if r := n.Raw(); len(r) > len(in) {
					panic("sub node longer than the input")
				}
				v, _ := n.Interface(c.topts[0])
				touch(v, 0)
			}
		}
		return last
	}},
	{"generic.Node.Foreach", func(c *c06ctx, j c06job, in []byte) error {
		var walk func(n generic.Node, d int) error
		walk = func(n generic.Node, d int) error {
			var inner error
			e := n.Foreach(func(p generic.Path, sub generic.Node) bool {
				if d < 8 {
					if ie := walk(sub, d+1); ie != nil {
						inner = ie
					}
				}
				return true
			}, c.topts[j.param>>8&1])
			if e != nil {
				return e
			}
			return inner
		}
		return walk(newTNode(jobType(j), in), 0)
	}},
	{"generic.Node.Field/Index/Get", func(c *c06ctx, j c06job, in []byte) error {
		n := newTNode(jobType(j), in)
		var last error
		// a sub node handed back by a single-step accessor must lie inside the caller's buffer, and reading it
		// (Raw / Int / Interface ...) must stay inside too: the input sits flush against the guard page
		use := func(v generic.Node) {
			last = nodeErr(v)
			if last != nil {
				return
			}
			checkInside(in, v.Raw())
			x, _ := v.Interface(c.topts[0])
			touch(x, 0)
			switch v.Type() {
			case thrift.I08, thrift.I16, thrift.I32, thrift.I64:
				v.Int()
			case thrift.DOUBLE:
				v.Float64()
			case thrift.BOOL:
				v.Bool()
			}
		}
		switch jobType(j) {
		case thrift.STRUCT:
			for _, id := range []thrift.FieldID{1, 2, 3, 64, 255, 32767} {
				use(n.Field(id))
			}
		case thrift.LIST, thrift.SET:
			for _, i := range []int{0, 1, 2, 3, 4, 5, 7, 16, 1000} {
				use(n.Index(i))
			}
		case thrift.MAP:
			use(n.GetByStr("key"))
			use(n.GetByStr("k1"))
			use(n.GetByInt(1))
			use(n.GetByInt(-3))
			use(n.GetByRaw([]byte{0, 0, 0, 1}))
		}
		n.Len()
		return last
	}},
	{"generic.Value.Index/Field/Get", func(c *c06ctx, j c06job, in []byte) error {
		// the typed single-step accessors on a container value described by a descriptor (param: index into c.cdescs)
		cd := c.cdescs[j.param%len(c.cdescs)]
		v := generic.NewValue(cd, in)
		var last error
		use := func(x generic.Value) {
			last = nodeErr(x.Node)
			if last != nil {
				return
			}
			checkInside(in, x.Raw())
			y, _ := x.Interface(c.topts[0])
			touch(y, 0)
			x.Int()
		}
		switch cd.Type() {
		case thrift.LIST, thrift.SET:
			for _, i := range []int{0, 1, 2, 3, 4, 5, 7, 16, 1000} {
				use(v.Index(i))
			}
		case thrift.MAP:
			use(v.GetByStr("key"))
			use(v.GetByInt(1))
		case thrift.STRUCT:
			use(v.Field(1))
			use(v.Field(2))
		}
		return last
	}},
	{"generic.Value.GetByPath", func(c *c06ctx, j c06job, in []byte) error {
		m := c.tmsgs[j.in.msg]
		root := generic.NewValue(m.desc, in)
		var last error
		for _, p := range m.paths {
			v := root.GetByPath(toPath(p)...)
			last = nodeErr(v.Node)
			if last == nil {
				x, _ := v.Interface(c.topts[0])
				touch(x, 0)
			}
		}
		return last
	}},
	{"generic.PathNode.Load", func(c *c06ctx, j c06job, in []byte) error {
		pn := generic.PathNode{Node: newTNode(jobType(j), in)}
		return pn.Load(j.param&0x100 != 0, c.topts[j.param>>9&3])
	}},
	{"generic.Value.MarshalTo", func(c *c06ctx, j c06job, in []byte) error {
		m := c.tmsgs[j.in.msg]
		to := c.tmsgs[(j.in.msg+(j.param>>8&1))%len(c.tmsgs)].desc
		_, e := generic.NewValue(m.desc, in).MarshalTo(to, c.topts[0])
		return e
	}},
	{"t2j", func(c *c06ctx, j c06job, in []byte) error {
		_, e := c.t2j.Do(c.bg, c.tmsgs[j.in.msg].desc, in)
		return e
	}},
	{"t2j.base", func(c *c06ctx, j c06job, in []byte) error {
		// conv/t2j with thrift base extraction: the base.BaseResp field goes through readResponseBase
		ctx := context.WithValue(c.bg, conv.CtxKeyThriftRespBase, base.NewBaseResp())
		_, e := c.t2jb.Do(ctx, c.bmsgs[j.in.msg].desc, in)
		return e
	}},
	{"j2t", func(c *c06ctx, j c06job, in []byte) error {
		_, e := c.j2t.Do(c.bg, c.tmsgs[j.in.msg].desc, in)
		return e
	}},
	{"j2p", func(c *c06ctx, j c06job, in []byte) error {
		_, e := c.j2p.Do(c.bg, c06ProtoDescs.outer, in)
		return e
	}},
	{"p2j", func(c *c06ctx, j c06job, in []byte) error {
		d := c06ProtoDescs.outer
		if j.param == 1 {
			d = c06ProtoDescs.empty
		}
		_, e := c.p2j.Do(c.bg, d, in)
		return e
	}},
	{"proto.Skip", func(c *c06ctx, j c06job, in []byte) error {
		p := pbinary.BinaryProtocol{Buf: in}
		e := p.Skip(proto.WireType(j.param), false)
		if p.Read > len(in) || p.Read < 0 {
			panic("cursor outside the buffer after Skip")
		}
		return e
	}},
	{"proto.ReadAnyWithDesc", func(c *c06ctx, j c06job, in []byte) error {
		p := pbinary.BinaryProtocol{Buf: in}
		v, e := p.ReadAnyWithDesc(c06ProtoDescs.outer, false, j.param&1 == 1, j.param&2 == 2, j.param&4 == 4)
		touch(v, 0)
		return e
	}},
	{"proto.ReadList/ReadMap/SkipAll", func(c *c06ctx, j c06job, in []byte) error {
		// every field of Outer that is a list or a map, the input positioned at the field's tag
		msg := c06ProtoDescs.outer.Message()
		var last error
		for _, f := range pOuter.fields {
			fd := msg.ByNumber(proto.FieldNumber(f.num))
			if fd == nil {
				continue
			}
			switch {
			case fd.IsList():
				p := pbinary.BinaryProtocol{Buf: in}
				_, last = p.ReadList(fd.Type(), false, false, false)
				p2 := pbinary.BinaryProtocol{Buf: in}
				_, last = p2.SkipAllElements(proto.FieldNumber(f.num), fd.Type().IsPacked())
			case fd.IsMap():
				p := pbinary.BinaryProtocol{Buf: in}
				_, last = p.ReadMap(fd.Type(), false, false, false)
			}
		}
		return last
	}},
	{"protowire.Consume", func(c *c06ctx, j c06job, in []byte) error {
		_, n1 := protowire.ConsumeVarint(in)
		_, n2 := protowire.ConsumeFixed32(in)
		_, n3 := protowire.ConsumeFixed64(in)
		b, n4, all := protowire.ConsumeBytes(in)
		for _, n := range []int{n1, n2, n3, n4, all} {
			if n > len(in) {
				panic("consumed more than the input")
			}
		}
		if len(b) > len(in) {
			panic("bytes longer than the input")
		}
		p := pbinary.BinaryProtocol{Buf: in}
		_, _, _, e := p.ConsumeTag()
		p2 := pbinary.BinaryProtocol{Buf: in}
		x2, _ := p2.ReadString(false)
		touch(x2, 0)
		p3 := pbinary.BinaryProtocol{Buf: in}
		x3, _ := p3.ReadBytes()
		touch(x3, 0)
		touch(b, 0)
		p4 := pbinary.BinaryProtocol{Buf: in}
		p4.ReadLength()
		for _, x := range []*pbinary.BinaryProtocol{&p, &p2, &p3, &p4} {
			if x.Read > len(in) || x.Read < 0 {
				panic("cursor outside the buffer")
			}
		}
		return e
	}},
	{"pgeneric.Value.GetByPath/Interface", func(c *c06ctx, j c06job, in []byte) error {
		root := pgeneric.NewRootValue(c06ProtoDescs.outer, in)
		var last error
		chk := func(v pgeneric.Value) {
			if v.IsError() {
				last = errNode
			} else {
				last = nil
				x, _ := v.Interface(&pgeneric.Options{})
				touch(x, 0)
			}
		}
		chk(root.GetByPath(pgeneric.NewPathFieldId(1)))
		chk(root.GetByPath(pgeneric.NewPathFieldId(15)))
		chk(root.GetByPath(pgeneric.NewPathFieldId(17), pgeneric.NewPathFieldId(2)))
		chk(root.GetByPath(pgeneric.NewPathFieldId(8), pgeneric.NewPathIndex(1)))
		chk(root.GetByPath(pgeneric.NewPathFieldId(19), pgeneric.NewPathIndex(1), pgeneric.NewPathFieldId(1)))
		chk(root.GetByPath(pgeneric.NewPathFieldId(21), pgeneric.NewPathStrKey("key"), pgeneric.NewPathFieldId(1)))
		chk(root.GetByPath(pgeneric.NewPathFieldId(22), pgeneric.NewPathIntKey(1)))
		chk(root.GetByPath(pgeneric.NewPathFieldId(2000), pgeneric.NewPathIndex(0)))
		x, e := root.Interface(&pgeneric.Options{})
		touch(x, 0)
		if e != nil {
			return e
		}
		return last
	}},
	{"pgeneric.PathNode.Load", func(c *c06ctx, j c06job, in []byte) error {
		pn := pgeneric.PathNode{Node: pgeneric.NewNode(proto.MESSAGE, in)}
		return pn.Load(j.param&1 == 1, &pgeneric.Options{}, c06ProtoDescs.outer)
	}},
	{"pgeneric.Value.MarshalTo", func(c *c06ctx, j c06job, in []byte) error {
		_, e := pgeneric.NewRootValue(c06ProtoDescs.outer, in).MarshalTo(c06ProtoDescs.outer, &pgeneric.Options{})
		return e
	}},
}

func epIndex(name string) int {
	for i, e := range c06eps {
		if e.name == name {
			return i
		}
	}
	die("unknown entry point %s", name)
	return -1
}

func buildC06Ctx(r *rng, nT, nP int) *c06ctx {
	loadProtoDescs()
	c := &c06ctx{bg: context.Background()}
	c.tmsgs = genThriftMsgs(r.fork(), nT)
	c.pmsgs = genProtoMsgs(r.fork(), nP)
	c.topts = []*generic.Options{{}, {UseNativeSkip: true}, {StoreChildrenById: true}, {StoreChildrenByHash: true, MapStructById: true}}
	c.cdescs, c.cvals = c06Containers(r.fork())
	c.t2j = t2j.NewBinaryConv(conv.Options{})
	c.t2jb = t2j.NewBinaryConv(conv.Options{EnableThriftBase: true})
	for br := r.fork(); len(c.bmsgs) < nT/6+2; {
		if m, _ := c06BaseMsg(br.fork()); m != nil && len(m.buf) <= 400 {
			c.bmsgs = append(c.bmsgs, m)
		}
	}
	c.j2t = j2t.NewBinaryConv(conv.Options{})
	c.p2j = p2j.NewBinaryConv(conv.Options{})
	c.j2p = j2p.NewBinaryConv(conv.Options{})
	for _, m := range c.tmsgs {
		var js []byte
		noPanic(func() { js, _ = c.t2j.Do(c.bg, m.desc, m.buf) })
		c.tjson = append(c.tjson, js)
	}
	for _, m := range c.pmsgs {
		var js []byte
		noPanic(func() { js, _ = c.p2j.Do(c.bg, c06ProtoDescs.outer, m.buf) })
		c.pjson = append(c.pjson, js)
	}
	return c
}

// the deterministic job list of one (seed, tier)
func buildC06Jobs(r *rng, tier string) ([]c06job, *c06ctx) {
	nT, nP, maxTrunc, budget, nRand := 90, 60, 150, 3, 300
	if tier == "thorough" {
		nT, nP, maxTrunc, budget, nRand = 300, 300, 4000, 12, 3000
	}
	c := buildC06Ctx(r, nT, nP)
	var jobs []c06job
	add := func(ep string, in c06input, param int, _ string) {
		j := c06job{ep: epIndex(ep), in: in, param: param}
		switch {
		case strings.HasPrefix(ep, "thrift.") || strings.HasPrefix(ep, "generic.") || ep == "t2j" || ep == "t2j.base":
			j.flags = c06Flags(ep, in.b, jobType(j))
		case strings.HasPrefix(ep, "proto") || strings.HasPrefix(ep, "pgeneric.") || ep == "p2j":
			j.flags = c06PFlags(ep, in.b, param)
		case ep == "j2t" || ep == "j2p":
			j.flags = c06JFlags(in.b)
		}
		if j.flags == "" {
			j.flags = "-"
		}
		jobs = append(jobs, j)
	}
	structEPs := []string{"thrift.SkipGo", "thrift.SkipNative", "thrift.ReadAny", "thrift.ReadAnyWithDesc", "thrift.ReadStringWithDesc", "generic.Node.Interface",
		"generic.Node.List/Map", "generic.Node.Children", "generic.Node.GetByPath", "generic.Node.Foreach", "generic.Node.Field/Index/Get", "generic.Value.GetByPath",
		"generic.PathNode.Load", "generic.Value.MarshalTo", "t2j"}
	rr := r.fork()
	for mi, m := range c.tmsgs {
		for _, in := range thriftVariants(rr, mi, m, maxTrunc, budget) {
			for _, ep := range structEPs {
				add(ep, in, rr.intn(8)<<8, c06Flags(ep, in.b, thrift.STRUCT))
			}
			if rr.chance(15) {
				add("thrift.ReadScalars", in, 0, "")
				add("thrift.UnwrapBinaryMessage", in, 0, "")
			}
		}
		// the same message wrapped in an envelope
		if w, err := thrift.WrapBinaryBody(m.buf, "method", thrift.CALL, 1, int32(mi)); err == nil {
			for k := 0; k <= len(w) && k < 40; k++ {
				add("thrift.UnwrapBinaryMessage", c06input{w[:k], "trunc", mi}, 0, "")
			}
			for k := 0; k < 12; k++ {
				cp := cloneBytes(w)
				cp[rr.intn(minInt(len(cp), 24))] = byte(rr.next())
				add("thrift.UnwrapBinaryMessage", c06input{cp, "flip", mi}, 0, "")
			}
			for _, cv := range countSubst {
				cp := cloneBytes(w)
				cp[4], cp[5], cp[6], cp[7] = byte(cv>>24), byte(cv>>16), byte(cv>>8), byte(cv)
				add("thrift.UnwrapBinaryMessage", c06input{cp, "len", mi}, 0, "")
			}
		}
		// sub values with every declared container type: the first list / set / map found in the value
		for _, sub := range subValues(m.val, 6) {
			var ps []bpos
			sm := &tmsg{root: sub.T, val: sub}
			sm.buf = sub.encodePos(nil, &ps)
			sm.pos = ps
			if len(sm.buf) > 300 {
				continue
			}
			for _, in := range thriftVariants(rr, mi, sm, 40, 2) {
				for _, ep := range []string{"thrift.SkipGo", "thrift.SkipNative", "thrift.ReadAny", "generic.Node.Interface", "generic.Node.List/Map", "generic.Node.Children",
					"generic.Node.Foreach", "generic.Node.Field/Index/Get", "generic.PathNode.Load"} {
					add(ep, in, int(sub.T.K)|rr.intn(8)<<8, c06Flags(ep, in.b, sub.T.K))
				}
			}
		}
	}
	for mi, m := range c.bmsgs {
		for _, in := range thriftVariants(rr, mi, m, maxTrunc, budget+2) {
			add("t2j.base", in, 0, "")
		}
	}
	// containers of fixed-width elements with the header intact and the elements cut: every truncation point, counts
	// above the elements present
	for _, cv := range c.cvals {
		t := c.cdescs[cv.msg].Type()
		var vars []c06input
		for k := 0; k <= len(cv.b); k++ {
			vars = append(vars, c06input{cv.b[:k], "trunc", cv.msg})
		}
		if t == thrift.LIST || t == thrift.SET {
			for _, cnt := range []uint32{7, 64, 1 << 16, 0x7fffffff} {
				cp := cloneBytes(cv.b)
				binaryPut32(cp[1:], cnt)
				vars = append(vars, c06input{cp, "count", cv.msg})
			}
		}
		for _, in := range vars {
			add("generic.Node.Field/Index/Get", in, int(t), "")
			add("generic.Value.Index/Field/Get", in, cv.msg, "")
			add("generic.Node.Interface", in, int(t), "")
			add("thrift.SkipGo", in, int(t), "")
		}
	}
	// nesting around the depth limit, every declared type on random bytes
	for kind := 0; kind < 4; kind++ {
		for _, n := range []int{1, 2, 1022, 1023, 1024, 1025, 3000} {
			t, b := thriftNest(kind, n)
			for _, ep := range []string{"thrift.SkipGo", "thrift.SkipNative", "thrift.ReadAny", "generic.Node.Interface", "generic.Node.Children", "generic.Node.Foreach", "generic.PathNode.Load"} {
				add(ep, c06input{b, "nest", 0}, int(t)|0x100, c06Flags(ep, b, t))
			}
		}
	}
	for k := 0; k < nRand; k++ {
		b := rr.bytes(rr.intn(48))
		if rr.chance(50) && len(b) > 6 {
			// plausible container header followed by noise
			b[0] = byte(thriftAllTypes[rr.intn(len(thriftAllTypes))])
			b[1] = byte(thriftAllTypes[rr.intn(len(thriftAllTypes))])
			b[2], b[3] = 0, 0
		}
		mi := rr.intn(len(c.tmsgs))
		for _, t := range thriftAllTypes {
			in := c06input{b, "random", mi}
			for _, ep := range []string{"thrift.SkipGo", "thrift.SkipNative", "thrift.ReadAny", "generic.Node.Interface", "generic.Node.List/Map", "generic.Node.Children", "generic.Node.Foreach",
				"generic.Node.Field/Index/Get", "generic.PathNode.Load"} {
				add(ep, in, int(t)|rr.intn(8)<<8, c06Flags(ep, b, t))
			}
		}
		in := c06input{b, "random", mi}
		for _, ep := range []string{"thrift.ReadAnyWithDesc", "thrift.ReadStringWithDesc", "generic.Value.GetByPath", "generic.Value.MarshalTo", "t2j", "thrift.ReadScalars", "thrift.UnwrapBinaryMessage"} {
			add(ep, in, rr.intn(8)<<8, c06Flags(ep, b, thrift.STRUCT))
		}
	}
	// JSON
	for mi, js := range c.tjson {
		if len(js) == 0 || len(js) > 1500 {
			continue
		}
		for _, in := range jsonVariants(rr, mi, js, maxTrunc, budget) {
			add("j2t", in, 0, "")
		}
	}
	for _, s := range jsonSpecials() {
		add("j2t", c06input{s, "special", rr.intn(len(c.tmsgs))}, 0, "")
		add("j2p", c06input{s, "special", 0}, 0, "")
	}
	for mi, js := range c.pjson {
		if len(js) == 0 || len(js) > 1500 {
			continue
		}
		for _, in := range jsonVariants(rr, mi, js, maxTrunc, budget) {
			add("j2p", in, 0, "")
		}
	}
	// Protobuf
	protoEPs := []string{"proto.ReadAnyWithDesc", "p2j", "pgeneric.Value.GetByPath/Interface", "pgeneric.PathNode.Load", "pgeneric.Value.MarshalTo"}
	for mi, m := range c.pmsgs {
		for _, in := range protoVariants(rr, mi, m, maxTrunc, budget) {
			for _, ep := range protoEPs {
				add(ep, in, rr.intn(8), c06PFlags(ep, in.b, 0))
			}
			add("p2j", in, 1, c06PFlags("p2j", in.b, 1))
			if rr.chance(25) {
				add("proto.ReadList/ReadMap/SkipAll", in, 0, "")
				add("protowire.Consume", in, 0, "")
				for wt := 0; wt < 8; wt++ {
					add("proto.Skip", in, wt, "")
				}
			}
			// the message body positioned at each of its top-level tags for the list / map readers
		}
		for _, p := range m.pos {
			if p.kind == 'G' && rr.chance(30) {
				tail := m.buf[p.off:]
				add("proto.ReadList/ReadMap/SkipAll", c06input{tail, "valid", mi}, 0, "")
				if len(tail) > 2 {
					add("proto.ReadList/ReadMap/SkipAll", c06input{tail[:1+rr.intn(len(tail)-1)], "trunc", mi}, 0, "")
				}
			}
		}
	}
	for _, n := range []int{1, 50, 1000, 5000} {
		b := protoNest(n)
		for _, ep := range protoEPs {
			add(ep, c06input{b, "nest", 0}, 1, c06PFlags(ep, b, 0))
		}
	}
	for k := 0; k < nRand; k++ {
		b := rr.bytes(rr.intn(40))
		in := c06input{b, "random", 0}
		for _, ep := range protoEPs {
			add(ep, in, rr.intn(8), c06PFlags(ep, b, 0))
		}
		add("p2j", in, 1, c06PFlags("p2j", b, 1))
		add("proto.ReadList/ReadMap/SkipAll", in, 0, "")
		add("protowire.Consume", in, 0, "")
		for wt := 0; wt < 8; wt++ {
			add("proto.Skip", in, wt, "")
		}
	}
	for _, v := range bigVarints {
		b := appendVarint(nil, v)
		b = append(b, 1, 2, 3)
		in := c06input{b, "len", 0}
		add("proto.Skip", in, 2, "")
		add("protowire.Consume", in, 0, "")
	}
	return jobs, c
}

func minInt(a, b int) int {
	if a < b {
		return a
	}
	return b
}

// sub values of container type (list / set / map / nested struct), at most n
func subValues(v *Val, n int) []*Val {
	var out []*Val
	var walk func(x *Val, top bool)
	walk = func(x *Val, top bool) {
		if len(out) >= n {
			return
		}
		switch x.T.K {
		case thrift.LIST, thrift.SET, thrift.MAP:
			out = append(out, x)
		case thrift.STRUCT:
			if !top {
				out = append(out, x)
			}
		}
		for _, f := range x.Fields {
			walk(f, false)
		}
		for _, e := range x.Elems {
			walk(e, false)
		}
	}
	walk(v, true)
	return out
}

func binaryPut32(b []byte, v uint32) { b[0], b[1], b[2], b[3] = byte(v>>24), byte(v>>16), byte(v>>8), byte(v) }

// descriptors and encodings of small containers: list/set of every fixed-width type, map<string,i32>, map<i32,i64>, a struct
func c06Containers(r *rng) ([]*thrift.TypeDescriptor, []c06input) {
	var tys []*Ty
	for _, k := range []thrift.Type{thrift.BOOL, thrift.I08, thrift.I16, thrift.I32, thrift.I64, thrift.DOUBLE} {
		tys = append(tys, &Ty{K: thrift.LIST, Elem: &Ty{K: k}}, &Ty{K: thrift.SET, Elem: &Ty{K: k}})
	}
	tys = append(tys, &Ty{K: thrift.MAP, Key: &Ty{K: thrift.STRING}, Elem: &Ty{K: thrift.I32}},
		&Ty{K: thrift.MAP, Key: &Ty{K: thrift.I32}, Elem: &Ty{K: thrift.I64}},
		&Ty{K: thrift.LIST, Elem: &Ty{K: thrift.STRING}})
	g := newTgen(r)
	root := &Ty{K: thrift.STRUCT, Name: "W"}
	for i, t := range tys {
		root.Fields = append(root.Fields, &Fld{ID: int16(i + 1), Name: fmt.Sprintf("c%d", i), T: t})
	}
	g.structs = append(g.structs, root)
	desc, err := parseThrift(g.idl(root), thrift.Options{})
	if err != nil {
		die("C06 containers: %v", err)
	}
	var ds []*thrift.TypeDescriptor
	var vals []c06input
	for i, t := range tys {
		ds = append(ds, desc.Struct().FieldById(thrift.FieldID(i+1)).Type())
		v := &Val{T: t}
		n := 5 + r.intn(3)
		for k := 0; k < n; k++ {
			if t.K == thrift.MAP {
				key := g.genValue(t.Key, 1)
				if t.Key.K == thrift.STRING {
					key.S = []byte(fmt.Sprintf("k%d", k))
				} else {
					key.I = int64(k)
				}
				v.Keys = append(v.Keys, key)
			}
			v.Elems = append(v.Elems, g.genValue(t.Elem, 1))
		}
		vals = append(vals, c06input{v.encode(nil), "valid", i})
	}
	ds = append(ds, desc)
	return ds, vals
}
