//go:build verif

// C06, second part: the byte walkers that have list-based models on other properties' files are compared with
// the implementation on MALFORMED input too (those properties only judge well-formed values):
//   611 thrift/generic Node.GetByPath   vs ThriftGeneric.get_by_path      type bytes path status type start end
//   612 conv/t2j                        vs T2JBytes.t2j_walk_gen          (layout of check 304) opts desc.. bytes errclass text
//   613 conv/p2j                        vs P2JBytes.p2j_walk_gen          schema.. int64str disallow bytes errclass
// Judged by coq/model/Check06b.v: the implementation may reject more than the model (drift), it may not succeed where
// the model errs, nor panic, nor hang.
package main

import (
	"context"
	"os"
	"time"

	"github.com/cloudwego/dynamicgo/conv"
	"github.com/cloudwego/dynamicgo/conv/t2j"
	"github.com/cloudwego/dynamicgo/thrift"
	"github.com/cloudwego/dynamicgo/thrift/base"
	"github.com/cloudwego/dynamicgo/thrift/generic"
)

func init() {
	base := generators["C06"]
	generators["C06"] = func(r *rng, n int) {
		base(r, n)
		genC06b(r.fork(), n)
	}
}

func emit611(t thrift.Type, b []byte, p []Step) {
	f := []string{fi(int(t)), fx(b)}
	f = append(f, pathFields(p)...)
	obs := panicObs
	if len(b) > 0 {
		noPanic(func() {
			root := generic.NewNode(t, b)
			obs = observe(b, root.GetByPath(toPath(p)...))
		})
	} else {
		return
	}
	f = append(f, obs...)
	out.emit(611, f...)
}

// 616: the single-step accessors (Node.Index / Field / GetByStr / GetByInt) on a container whose header is intact and whose
// elements are cut: same fields as 611 with a one-step path; the judged observable is "found span inside the buffer"
func emit616(t thrift.Type, b []byte, st Step) {
	if len(b) == 0 {
		return
	}
	f := []string{fi(int(t)), fx(b)}
	f = append(f, pathFields([]Step{st})...)
	obs := panicObs
	noPanic(func() {
		n := generic.NewNode(t, b)
		var v generic.Node
		switch st.Kind {
		case 1:
			v = n.Field(thrift.FieldID(st.N))
		case 2:
			v = n.Index(int(st.N))
		case 3:
			v = n.GetByStr(string(st.B))
		default:
			v = n.GetByInt(int(st.N))
		}
		obs = observe(b, v)
	})
	f = append(f, obs...)
	out.emit(616, f...)
}

// t2j on arbitrary bytes: same fields as check 304, id 612 (the text is not needed: ok/err only)
func emit612(desc *thrift.TypeDescriptor, dfs []string, tb []byte, opts int) {
	co := conv.Options{
		Int642String:         opts&o3Int642String != 0,
		ByteAsUint8:          opts&o3ByteAsUint8 != 0,
		NoBase64Binary:       opts&o3NoBase64Binary != 0,
		DisallowUnknownField: opts&o3DisallowUnknown != 0,
		EnableThriftBase:     opts&o3ThriftBase != 0,
	}
	ec, _ := c06T2J(desc, tb, co, opts&o3BaseInCtx != 0)
	fields := []string{fi(opts)}
	fields = append(fields, dfs...)
	fields = append(fields, fx(tb), fi(ec))
	out.emit(612, fields...)
}

// a root struct with one extra field of type base.BaseResp (the response base conv/t2j extracts into the context under
// EnableThriftBase), parsed with thrift.Options.EnableThriftBase; nil when the random shape has no free id for it
func c06BaseMsg(r *rng) (m *tmsg, dfs []string) {
	g := &gen03{tgen: newTgen(r.fork()), extra: map[*Fld]*fx03{}}
	g.maxDepth = 2 + g.r.intn(2)
	g.allowReq = true
	root := g.genStruct(0)
	g.base = &Ty{K: thrift.STRUCT, Name: "BaseResp", Fields: []*Fld{
		{ID: 1, Name: "StatusMessage", T: &Ty{K: thrift.STRING}},
		{ID: 2, Name: "StatusCode", T: &Ty{K: thrift.I32}},
		{ID: 3, Name: "Extra", T: &Ty{K: thrift.MAP, Key: &Ty{K: thrift.STRING}, Elem: &Ty{K: thrift.STRING}}, Req: 2}}}
	g.structs = append(g.structs, g.base)
	for _, f := range root.Fields {
		if f.ID == 255 {
			return nil, nil
		}
	}
	baseFld := &Fld{ID: 255, Name: "BaseResp", T: g.base}
	root.Fields = append(root.Fields, baseFld)
	g.decorate(root)
	for _, e := range g.extra {
		e.jsconv = false
	}
	g.extra[baseFld].respBase = true
	for _, f := range g.base.Fields {
		g.extra[f].alias = f.Name
	}
	idl, inc := g.idl03(root, true)
	desc, err := parse03(idl, inc, thrift.Options{EnableThriftBase: true})
	if err != nil {
		die("C06b: base IDL does not parse: %v\n%s", err, idl)
	}
	g.descFields(root, &dfs)
	val := g.genValue03(root, 0, &opt03{unknown: g.r.chance(30)})
	// the base field is always present, with a message and a few Extra pairs
	hasBase := false
	for _, id := range val.FIDs {
		if id == 255 {
			hasBase = true
		}
	}
	if !hasBase {
		val.FIDs = append(val.FIDs, 255)
		val.Fields = append(val.Fields, g.genValue03(g.base, 1, &opt03{}))
	}
	m = &tmsg{root: root, desc: desc, val: val}
	m.buf = val.encodePos(nil, &m.pos)
	return m, dfs
}

func genC06b(r *rng, n int) {
	// ---- 611: paths of a valid value, looked up in malformed variants of its bytes
	nv := n / 250
	if nv < 4 {
		nv = 4
	}
	for _, m := range genThriftMsgs(r.fork(), nv) {
		rr := r.fork()
		vars := thriftVariants(rr, 0, m, 40, 2)
		for _, in := range vars {
			if len(m.paths) == 0 {
				break
			}
			for k := 0; k < 2; k++ {
				if p := m.paths[rr.intn(len(m.paths))]; len(p) > 0 { // the empty path hands back the node itself, unread
					emit611(thrift.STRUCT, in.b, p)
				}
			}
		}
	}
	// ---- 616: single-step accessors on truncated containers with intact headers
	_, cvals := c06Containers(r.fork())
	for _, cv := range cvals {
		t := thrift.Type(0)
		switch {
		case len(cv.b) > 0 && cv.msg < 12:
			t = []thrift.Type{thrift.LIST, thrift.SET}[cv.msg%2]
		case cv.msg == 12 || cv.msg == 13:
			t = thrift.MAP
		default:
			t = thrift.LIST
		}
		for k := 1; k <= len(cv.b); k++ {
			b := cv.b[:k]
			switch t {
			case thrift.MAP:
				emit616(t, b, Step{Kind: 3, B: []byte("k3")})
				emit616(t, b, Step{Kind: 4, N: 3})
			default:
				for _, i := range []int64{0, 1, 3, 4, 6} {
					emit616(t, b, Step{Kind: 2, N: i})
				}
			}
		}
	}
	// ---- 612: t2j
	made := 0
	for made < n/3 {
		g := &gen03{tgen: newTgen(r.fork()), extra: map[*Fld]*fx03{}}
		g.maxDepth = 3 + g.r.intn(2)
		g.allowReq = true
		root := g.genStruct(0)
		g.decorate(root)
		for _, e := range g.extra {
			e.jsconv = false
		}
		idl, inc := g.idl03(root, false)
		desc, err := parse03(idl, inc, thrift.Options{})
		if err != nil {
			die("C06b: IDL does not parse: %v\n%s", err, idl)
		}
		var dfs []string
		g.descFields(root, &dfs)
		vo := &opt03{unknown: g.r.chance(50)}
		val := g.genValue03(root, 0, vo)
		m := &tmsg{root: root, val: val}
		m.buf = val.encodePos(nil, &m.pos)
		if len(m.buf) > 400 {
			continue
		}
		opts := walkOpts(g.r) & (o3Int642String | o3ByteAsUint8 | o3NoBase64Binary | o3DisallowUnknown) // the four options emit612 passes on
		for _, in := range thriftVariants(g.r, 0, m, 40, 2) {
			emit612(desc, dfs, in.b, opts)
			made++
		}
	}
	// ---- 612 with thrift base extraction: malformed bytes INSIDE the base.BaseResp field (readResponseBase)
	for made := 0; made < n/6; {
		m, dfs := c06BaseMsg(r.fork())
		if m == nil || len(m.buf) > 400 {
			continue
		}
		rr := r.fork()
		opts := walkOpts(rr)&(o3Int642String|o3ByteAsUint8|o3NoBase64Binary|o3DisallowUnknown) | o3ThriftBase | o3BaseInCtx
		for _, in := range thriftVariants(rr, 0, m, 40, 4) {
			emit612(m.desc, dfs, in.b, opts)
			made++
		}
	}
	// ---- 613: p2j
	genC06p2j(r.fork(), n/3)
}

// error class of one t2j conversion: 0 nil, 1 error, 3 panic, 4 no answer within the watchdog
func c06T2J(desc *thrift.TypeDescriptor, tb []byte, co conv.Options, baseInCtx bool) (int, []byte) {
	type res struct {
		ec  int
		out []byte
	}
	done := make(chan res, 1)
	go func() {
		var outb []byte
		var err error
		src := append([]byte(nil), tb...)
		ok, _ := noPanic(func() {
			cv := t2j.NewBinaryConv(co)
			ctx := context.Background()
			if baseInCtx {
				ctx = context.WithValue(ctx, conv.CtxKeyThriftRespBase, base.NewBaseResp())
			}
			outb, err = cv.Do(ctx, desc, src)
		})
		switch {
		case !ok:
			done <- res{3, nil}
		case err != nil:
			done <- res{1, nil}
		default:
			done <- res{0, outb}
		}
	}()
	select {
	case r := <-done:
		return r.ec, r.out
	case <-time.After(3 * time.Second):
		return 4, nil
	}
}

// positions of tags / length prefixes / varint values found by a schema-less scan (nested payloads that parse as
// messages are entered)
func wireScan(b []byte, base int, depth int, ps *[]ppos) bool {
	i := 0
	for i < len(b) {
		tag, n := varintAt(b, i)
		if n == 0 || tag>>3 == 0 {
			return false
		}
		*ps = append(*ps, ppos{base + i, 'G', n})
		i += n
		switch tag & 7 {
		case 0:
			_, m := varintAt(b, i)
			if m == 0 {
				return false
			}
			*ps = append(*ps, ppos{base + i, 'V', m})
			i += m
		case 1:
			i += 8
		case 5:
			i += 4
		case 2:
			l, m := varintAt(b, i)
			if m == 0 || int(l) < 0 || i+m+int(l) > len(b) {
				return false
			}
			if depth == 0 {
				*ps = append(*ps, ppos{base + i, 'N', m})
			} else {
				*ps = append(*ps, ppos{base + i, 'M', m}) // a length inside a nested message
			}
			if depth < 4 && l > 0 {
				var sub []ppos
				if wireScan(b[i+m:i+m+int(l)], base+i+m, depth+1, &sub) {
					*ps = append(*ps, sub...)
				}
			}
			i += m + int(l)
		default:
			return false
		}
		if i > len(b) {
			return false
		}
	}
	return true
}

func genC06p2j(r *rng, n int) {
	optsPool := []pgOpts{{MaxMsgs: 4, MaxFields: 8, MaxDepth: 3}, {MaxMsgs: 3, MaxFields: 6, MaxDepth: 4}, {MaxMsgs: 2, MaxFields: 5, MaxDepth: 5}}
	made, bad := 0, 0
	for made < n {
		s := genProtoSchema(r.fork(), optsPool[r.intn(len(optsPool))])
		unpacked := map[*pgField]bool{}
		c, err := c08Compile(s, c08Text(s, unpacked))
		if err != nil {
			bad++
			if bad > 50 {
				die("C06b: schemas do not compile: %v", err)
			}
			continue
		}
		sf := c08SchemaFields(s, unpacked)
		v := genProtoValue(r.fork(), c, s.Root, 0)
		b, err := c.encodeRef(v, c.S.Root)
		if err != nil || len(b) == 0 || len(b) > 300 {
			continue
		}
		m := &pmsg{buf: b}
		wireScan(b, 0, 0, &m.pos)
		i64s, dis := r.chance(30), r.chance(30)
		o := conv.Options{Int642String: i64s, DisallowUnknownField: dis}
		for _, in := range protoVariants(r, 0, m, 40, 2) {
			res, hung := c08Convert(c.Dyn, in.b, o, nil)
			ec := res.Err
			if ec == 2 {
				ec = 3 // panic
			}
			if hung {
				ec = 4
			}
			// last field: the input was made by changing a length varint INSIDE a nested message (selector of finding 611)
			fields := append(append([]string{}, sf...), fb(i64s), fb(dis), fx(in.b), fi(ec), fb(in.class == "lennest"))
			out.emit(613, fields...)
			made++
			if hung {
				// the conversion goroutine cannot be stopped (and keeps allocating): the case is written, leave
				out.w.Flush()
				os.Exit(0)
			}
		}
	}
}
