//go:build verif

// C06, second part: the byte walkers that have list-based models on other properties' files are compared with
// the implementation on MALFORMED input too (those properties only judge well-formed values):
//   611 thrift/generic Node.GetByPath   vs ThriftGeneric.get_by_path      type bytes path status type start end
//   612 conv/t2j                        vs T2JBytes.t2j_walk_gen          (layout of check 304) opts desc.. bytes errclass text
//   613 conv/p2j                        vs P2JBytes.p2j_walk_gen          schema.. int64str disallow bytes errclass
// Judged by coq/model/Check06b.v: the implementation may reject more than the model (drift), it may not succeed where
// the model errs, nor panic, nor hang.
package main

import (
	"context"
	"os"
	"time"

	"github.com/cloudwego/dynamicgo/conv"
	"github.com/cloudwego/dynamicgo/conv/t2j"
	"github.com/cloudwego/dynamicgo/thrift"
	"github.com/cloudwego/dynamicgo/thrift/generic"
)

func init() {
	base := generators["C06"]
	generators["C06"] = func(r *rng, n int) {
		base(r, n)
		genC06b(r.fork(), n)
	}
}

func emit611(t thrift.Type, b []byte, p []Step) {
	f := []string{fi(int(t)), fx(b)}
	f = append(f, pathFields(p)...)
	obs := panicObs
	if len(b) > 0 {
		noPanic(func() {
			root := generic.NewNode(t, b)
			obs = observe(b, root.GetByPath(toPath(p)...))
		})
	} else {
		return
	}
	f = append(f, obs...)
	out.emit(611, f...)
}

// t2j on arbitrary bytes: same fields as check 304, id 612 (the text is not needed: ok/err only)
func emit612(desc *thrift.TypeDescriptor, dfs []string, tb []byte, opts int) {
	co := conv.Options{
		Int642String:         opts&o3Int642String != 0,
		ByteAsUint8:          opts&o3ByteAsUint8 != 0,
		NoBase64Binary:       opts&o3NoBase64Binary != 0,
		DisallowUnknownField: opts&o3DisallowUnknown != 0,
	}
	ec, _ := c06T2J(desc, tb, co)
	fields := []string{fi(opts)}
	fields = append(fields, dfs...)
	fields = append(fields, fx(tb), fi(ec))
	out.emit(612, fields...)
}

func genC06b(r *rng, n int) {
	// ---- 611: paths of a valid value, looked up in malformed variants of its bytes
	nv := n / 250
	if nv < 4 {
		nv = 4
	}
	for _, m := range genThriftMsgs(r.fork(), nv) {
		rr := r.fork()
		vars := thriftVariants(rr, 0, m, 40, 2)
		for _, in := range vars {
			if len(m.paths) == 0 {
				break
			}
			for k := 0; k < 2; k++ {
				if p := m.paths[rr.intn(len(m.paths))]; len(p) > 0 { // the empty path hands back the node itself, unread
					emit611(thrift.STRUCT, in.b, p)
				}
			}
		}
	}
	// ---- 612: t2j
	made := 0
	for made < n/3 {
		g := &gen03{tgen: newTgen(r.fork()), extra: map[*Fld]*fx03{}}
		g.maxDepth = 3 + g.r.intn(2)
		g.allowReq = true
		root := g.genStruct(0)
		g.decorate(root)
		for _, e := range g.extra {
			e.jsconv = false
		}
		idl, inc := g.idl03(root, false)
		desc, err := parse03(idl, inc, thrift.Options{})
		if err != nil {
			die("C06b: IDL does not parse: %v\n%s", err, idl)
		}
		var dfs []string
		g.descFields(root, &dfs)
		vo := &opt03{unknown: g.r.chance(50)}
		val := g.genValue03(root, 0, vo)
		m := &tmsg{root: root, val: val}
		m.buf = val.encodePos(nil, &m.pos)
		if len(m.buf) > 400 {
			continue
		}
		opts := walkOpts(g.r) & (o3Int642String | o3ByteAsUint8 | o3NoBase64Binary | o3DisallowUnknown) // the four options emit612 passes on
		for _, in := range thriftVariants(g.r, 0, m, 40, 2) {
			emit612(desc, dfs, in.b, opts)
			made++
		}
	}
	// ---- 613: p2j
	genC06p2j(r.fork(), n/3)
}

// error class of one t2j conversion: 0 nil, 1 error, 3 panic, 4 no answer within the watchdog
func c06T2J(desc *thrift.TypeDescriptor, tb []byte, co conv.Options) (int, []byte) {
	type res struct {
		ec  int
		out []byte
	}
	done := make(chan res, 1)
	go func() {
		var outb []byte
		var err error
		src := append([]byte(nil), tb...)
		ok, _ := noPanic(func() {
			cv := t2j.NewBinaryConv(co)
			outb, err = cv.Do(context.Background(), desc, src)
		})
		switch {
		case !ok:
			done <- res{3, nil}
		case err != nil:
			done <- res{1, nil}
		default:
			done <- res{0, outb}
		}
	}()
	select {
	case r := <-done:
		return r.ec, r.out
	case <-time.After(3 * time.Second):
		return 4, nil
	}
}

// positions of tags / length prefixes / varint values found by a schema-less scan (nested payloads that parse as
// messages are entered)
func wireScan(b []byte, base int, depth int, ps *[]ppos) bool {
	i := 0
	for i < len(b) {
		tag, n := varintAt(b, i)
		if n == 0 || tag>>3 == 0 {
			return false
		}
		*ps = append(*ps, ppos{base + i, 'G', n})
		i += n
		switch tag & 7 {
		case 0:
			_, m := varintAt(b, i)
			if m == 0 {
				return false
			}
			*ps = append(*ps, ppos{base + i, 'V', m})
			i += m
		case 1:
			i += 8
		case 5:
			i += 4
		case 2:
			l, m := varintAt(b, i)
			if m == 0 || int(l) < 0 || i+m+int(l) > len(b) {
				return false
			}
			if depth == 0 {
				*ps = append(*ps, ppos{base + i, 'N', m})
			} else {
				*ps = append(*ps, ppos{base + i, 'M', m}) // a length inside a nested message
			}
			if depth < 4 && l > 0 {
				var sub []ppos
				if wireScan(b[i+m:i+m+int(l)], base+i+m, depth+1, &sub) {
					*ps = append(*ps, sub...)
				}
			}
			i += m + int(l)
		default:
			return false
		}
		if i > len(b) {
			return false
		}
	}
	return true
}

func genC06p2j(r *rng, n int) {
	optsPool := []pgOpts{{MaxMsgs: 4, MaxFields: 8, MaxDepth: 3}, {MaxMsgs: 3, MaxFields: 6, MaxDepth: 4}, {MaxMsgs: 2, MaxFields: 5, MaxDepth: 5}}
	made, bad := 0, 0
	for made < n {
		s := genProtoSchema(r.fork(), optsPool[r.intn(len(optsPool))])
		unpacked := map[*pgField]bool{}
		c, err := c08Compile(s, c08Text(s, unpacked))
		if err != nil {
			bad++
			if bad > 50 {
				die("C06b: schemas do not compile: %v", err)
			}
			continue
		}
		sf := c08SchemaFields(s, unpacked)
		v := genProtoValue(r.fork(), c, s.Root, 0)
		b, err := c.encodeRef(v, c.S.Root)
		if err != nil || len(b) == 0 || len(b) > 300 {
			continue
		}
		m := &pmsg{buf: b}
		wireScan(b, 0, 0, &m.pos)
		i64s, dis := r.chance(30), r.chance(30)
		o := conv.Options{Int642String: i64s, DisallowUnknownField: dis}
		for _, in := range protoVariants(r, 0, m, 40, 2) {
			res, hung := c08Convert(c.Dyn, in.b, o, nil)
			ec := res.Err
			if ec == 2 {
				ec = 3 // panic
			}
			if hung {
				ec = 4
			}
			// last field: the input was made by changing a length varint INSIDE a nested message (selector of finding 611)
			fields := append(append([]string{}, sf...), fb(i64s), fb(dis), fx(in.b), fi(ec), fb(in.class == "lennest"))
			out.emit(613, fields...)
			made++
			if hung {
				// the conversion goroutine cannot be stopped (and keeps allocating): the case is written, leave
				out.w.Flush()
				os.Exit(0)
			}
		}
	}
}
