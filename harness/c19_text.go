//go:build verif

package main

import (
	"encoding/base64"
	"math"
	"strconv"
	"strings"

	"github.com/cloudwego/dynamicgo/thrift"
)

// 1929 / 1930: thrift.BinaryProtocol.WriteStringWithDesc / ReadStringWithDesc against their as-coded Gallina model
// (coq/model/ThriftText.v, checker coq/model/Check19f.v).
//
//	1929  descriptor, base64Binary, text, code (0 nil,1 error,3 panic), p.Buf
//	1930  descriptor, options (1 byteAsUint8, 2 disallowUnknown, 4 base64Binary), input, code (0 ok,1 error,3 panic), text, bytes left
func init() {
	base := generators["C19"]
	generators["C19"] = func(r *rng, n int) {
		own := &rng{s: mixSeed(r.s ^ 0xC197E87)}
		if base != nil {
			base(r, n)
		}
		genC19Text(own, n)
	}
}

func c19WriteText(db []byte, desc *thrift.TypeDescriptor, txt string, b64 bool, dis bool) {
	if len(txt) > 4096 {
		return
	}
	var werr error
	var b []byte
	ok, _ := noPanic(func() {
		p := thrift.NewBinaryProtocolBuffer()
		werr = p.WriteStringWithDesc(txt, desc, dis, b64)
		b = append([]byte{}, p.Buf...)
		thrift.FreeBinaryProtocolBuffer(p)
	})
	if !ok {
		out.emit(1929, fx(db), fb(b64), fs(txt), "n3", fx(nil))
		return
	}
	out.emit(1929, fx(db), fb(b64), fs(txt), berr(werr), fx(b))
}

func c19ReadText(db []byte, desc *thrift.TypeDescriptor, in []byte, u8, dis, b64 bool) (string, bool) {
	if len(in) > 4096 {
		return "", false
	}
	var rerr error
	var buf []byte
	left := 0
	ok, _ := noPanic(func() {
		p := thrift.NewBinaryProtocol(append([]byte{}, in...))
		rerr = p.ReadStringWithDesc(desc, &buf, u8, dis, b64)
		left = len(p.Buf) - p.Read
		p.Recycle()
	})
	o := 0
	if u8 {
		o |= 1
	}
	if dis {
		o |= 2
	}
	if b64 {
		o |= 4
	}
	switch {
	case !ok:
		out.emit(1930, fx(db), fi(o), fx(in), "n3", fx(nil), "n0")
	case rerr != nil:
		out.emit(1930, fx(db), fi(o), fx(in), "n1", fx(nil), "n0")
	default:
		out.emit(1930, fx(db), fi(o), fx(in), "n0", fx(buf), fi(left))
		return string(buf), true
	}
	return "", false
}

var intTexts = []string{"", "+", "-", "+5", "-0", "+0", "007", "-007", "1_0", "12x", " 1", "1 ", "+-5", "-+5", "--5", "0x10", "1e3", "1.0", "٣",
	"127", "128", "-128", "-129", "255", "256", "300", "32767", "32768", "-32768", "-32769", "65535", "65536", "2147483647", "2147483648",
	"-2147483648", "-2147483649", "4294967296", "9223372036854775807", "9223372036854775808", "-9223372036854775808", "-9223372036854775809",
	"18446744073709551616", "+9223372036854775807", "00000000000000000000000000001", "1,2"}
var boolTexts = []string{"1", "t", "T", "TRUE", "true", "True", "0", "f", "F", "FALSE", "false", "False", "", "yes", "no", "tRUE", "true ", " true", "2", "01", "truee"}
var dblTexts = []string{"0", "-0", "1", "-1", "0.5", "-0.25", "1e3", "1E3", "1e+3", "1e-3", "3.141592653589793", "0.1", "1e308", "1.7976931348623157e308",
	"1.7976931348623159e308", "1e309", "-1e400", "1e-400", "4.9e-324", "2.4703282292062327e-324", "2.4703282292062328e-324", "9007199254740993",
	"123456789012345678901234567890", "0.000000000000000000000000000000000000001", "1e", "1.", ".5", "+1", "01", "1e+", "--1", "Inf", "-inf", "NaN",
	"infinity", "0x1p3", "1_0", "", " 1", "abc", "1,5"}

func genC19Text(r *rng, n int) {
	nschemas := 10 + n/100
	for si := 0; si < nschemas; si++ {
		g := newTgen(r.fork())
		g.maxDepth = 3
		g.maxFields = 7
		g.keyKinds = []thrift.Type{thrift.STRING, thrift.I08, thrift.I16, thrift.I32, thrift.I64, thrift.DOUBLE, thrift.BOOL}
		root := g.genStruct(0)
		desc, err := parseThrift(g.idl(root), thrift.Options{})
		if err != nil {
			die("generated IDL does not parse: %v", err)
		}
		rr := r.fork()
		for _, f := range root.Fields {
			fd := desc.Struct().FieldById(thrift.FieldID(f.ID)).Type()
			db := descBytes19(f.T, nil)
			if len(db) > 1024 {
				continue
			}
			for k := 0; k < 2; k++ {
				v := g.genValue(f.T, 1)
				in := v.encode(nil)
				if len(in) > 2000 {
					continue
				}
				b64 := rr.bool()
				txt, ok := c19ReadText(db, fd, in, rr.bool(), rr.bool(), b64)
				if ok {
					// what the reader printed, written back (same and opposite base64 setting)
					c19WriteText(db, fd, txt, b64, rr.bool())
					if rr.chance(30) {
						c19WriteText(db, fd, txt, !b64, rr.bool())
					}
				}
				c19ReadText(db, fd, append(append([]byte{}, in...), rr.bytes(1+rr.intn(3))...), rr.bool(), rr.bool(), rr.bool())
				if len(in) > 0 {
					c19ReadText(db, fd, in[:rr.intn(len(in))], rr.bool(), rr.bool(), rr.bool())
					cb := append([]byte{}, in...)
					cb[rr.intn(len(cb))] ^= 1 << uint(rr.intn(8))
					c19ReadText(db, fd, cb, rr.bool(), rr.bool(), rr.bool())
				}
			}
			// crafted texts by type
			var texts []string
			switch f.T.K {
			case thrift.BOOL:
				texts = boolTexts
			case thrift.I08, thrift.I16, thrift.I32, thrift.I64:
				texts = append(append([]string{}, intTexts...), strconv.FormatInt(int64(rr.u64()), 10), strconv.FormatUint(rr.u64(), 10))
			case thrift.DOUBLE:
				texts = append(append([]string{}, dblTexts...), strconv.FormatFloat(math.Float64frombits(rr.u64()), 'g', -1, 64),
					strconv.FormatFloat(math.Float64frombits(rr.u64()), 'e', 20, 64), strconv.FormatFloat(float64(int64(rr.u64()))/1024, 'f', -1, 64))
			case thrift.STRING:
				raw := rr.bytes(rr.intn(9))
				e := base64.StdEncoding.EncodeToString(raw)
				texts = []string{"", "plain", "a,b", string(raw), e, e + "=", strings.TrimRight(e, "="), "\n" + e, e[:len(e)/2] + "\r\n" + e[len(e)/2:],
					"QQ==", "QR==", "QQ=", "Q", "QUJD", "QUJ*", "QU JD", "QUJDRA==", "QUJDRA=", "QUJDRA", "====", "-_-_"}
			case thrift.LIST, thrift.SET:
				texts = []string{"", ",", "1", "1,2,3", "1,,2", "1,2,", ",1", "true,false,1,0", "a,b,c", "1.5,2e3,-0", "127,128,-129", "x", "1,x,3",
					"QQ==,QUI=", "9223372036854775808", "1, 2"}
			default:
				texts = []string{"", "{}", "1", "a:b", "{\"a\":1}"}
			}
			for _, t := range texts {
				if f.T.K != thrift.BOOL && f.T.K != thrift.LIST && f.T.K != thrift.SET && !rr.chance(45) {
					continue
				}
				c19WriteText(db, fd, t, rr.bool(), rr.bool())
			}
		}
	}
}
