//go:build verif

package main

import (
	"reflect"

	"github.com/cloudwego/dynamicgo/conv"
	"github.com/cloudwego/dynamicgo/conv/j2t"
	"github.com/cloudwego/dynamicgo/internal/native/types"
)

// Generated-definition checks 291 (C02) / 1691 (C16) / 1791 (C17): the REAL conv/j2t toFlags against gen/Gen_j2tflags.toFlags.
// All 1024 settings of the ten options toFlags looks at, each with every other option off and with random settings of the
// remaining options (which must not influence the word); the word a converter really hands to the native code
// (NewBinaryConv / SetOptions) must be the same.
var toFlagsOrder = []string{"WriteDefaultField", "DisallowUnknownField", "EnableValueMapping", "EnableHttpMapping", "String2Int64",
	"WriteRequireField", "NoBase64Binary", "WriteOptionalField", "ReadHttpValueFallback", "TracebackRequredOrRootFields"}

func init() {
	for _, p := range []struct {
		prop string
		id   int
	}{{"C02", 291}, {"C16", 1691}, {"C17", 1791}} {
		base, id := generators[p.prop], p.id
		generators[p.prop] = func(r *rng, n int) {
			genToFlags(g2cRng(r), id) // own stream (the base generator's stream is unchanged), first: emitted even if the base generator stops
			base(r, n)
		}
	}
}

func genToFlags(r *rng, id int) {
	out.emit(id, fu(types.F_ALLOW_UNKNOWN), fu(types.F_WRITE_DEFAULT), fu(types.F_VALUE_MAPPING), fu(types.F_HTTP_MAPPING), fu(types.F_STRING_INT),
		fu(types.F_WRITE_REQUIRE), fu(types.F_NO_BASE64), fu(types.F_WRITE_OPTIONAL), fu(types.F_TRACE_BACK), fi(0))
	known := map[string]int{}
	for i, n := range toFlagsOrder {
		known[n] = i
	}
	for b := 0; b < 1<<uint(len(toFlagsOrder)); b++ {
		for rep := 0; rep < 3; rep++ {
			var o conv.Options
			v := reflect.ValueOf(&o).Elem()
			other := uint64(0)
			if rep > 0 {
				other = r.next()
			}
			k := 0
			var used uint64
			for i := 0; i < v.NumField(); i++ {
				f := v.Field(i)
				if f.Kind() != reflect.Bool {
					continue
				}
				if bit, ok := known[v.Type().Field(i).Name]; ok {
					f.SetBool(b>>uint(bit)&1 == 1)
					continue
				}
				if k < 62 {
					on := other>>uint(k)&1 == 1
					f.SetBool(on)
					if on {
						used |= 1 << uint(k)
					}
					k++
				}
			}
			flags := j2t.VerifToFlags(o)
			out.emit(id, fi(b), fu(used), fu(flags))
			// the word of a real converter: constructor and SetOptions
			c := j2t.NewBinaryConv(o)
			if c.VerifFlags() != flags {
				out.emit(id, fi(b), fu(used), fu(c.VerifFlags()))
			}
			c2 := j2t.NewBinaryConv(conv.Options{})
			c2.SetOptions(o)
			if c2.VerifFlags() != flags || rep == 0 {
				out.emit(id, fi(b), fu(used), fu(c2.VerifFlags()))
			}
		}
	}
}

// g2cRng: a generator of its own for the generated-definition checks, derived from (not advancing) the property's generator state
func g2cRng(r *rng) *rng { return &rng{s: r.s ^ 0x67326371} }
