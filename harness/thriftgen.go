//go:build verif

package main

import (
	"context"
	"encoding/binary"
	"fmt"
	"sort"
	"strings"

	"github.com/cloudwego/dynamicgo/thrift"
)

// ---- abstract type shapes -------------------------------------------------------------------

type Ty struct {
	K      thrift.Type
	Name   string // struct name
	Fields []*Fld
	Key    *Ty
	Elem   *Ty
	Binary bool // STRING declared as binary in the IDL
	TD     []string // typedef chain: TD[0] names the structural type, TD[i] names TD[i-1]; the IDL refers to the last name
}

type Fld struct {
	ID   int16
	Name string
	T    *Ty
	Req  int // 0 default, 1 required, 2 optional
	Def  string // IDL default literal ("" = none)
}

type tgen struct {
	r       *rng
	structs []*Ty
	nname   int
	// knobs
	maxDepth   int
	maxFields  int
	keyKinds   []thrift.Type
	allowReq   bool
	structKeys bool
}

func newTgen(r *rng) *tgen {
	return &tgen{r: r, maxDepth: 4, maxFields: 5,
		keyKinds: []thrift.Type{thrift.STRING, thrift.I08, thrift.I16, thrift.I32, thrift.I64, thrift.DOUBLE, thrift.STRING, thrift.I32}}
}

var scalarKinds = []thrift.Type{thrift.BOOL, thrift.I08, thrift.I16, thrift.I32, thrift.I64, thrift.DOUBLE, thrift.STRING}

var fieldIDPool = []int16{1, 2, 3, 4, 5, 6, 7, 8, 9, 10, 63, 64, 65, 127, 128, 255, 256, 257, 1000, 4000, 32767}

func (g *tgen) genStruct(depth int) *Ty {
	g.nname++
	t := &Ty{K: thrift.STRUCT, Name: fmt.Sprintf("S%d", g.nname)}
	g.structs = append(g.structs, t)
	n := g.r.intn(g.maxFields + 1)
	if depth == 0 && n == 0 {
		n = 1 + g.r.intn(g.maxFields)
	}
	used := map[int16]bool{}
	for i := 0; i < n; i++ {
		var id int16
		for {
			if g.r.chance(70) {
				id = fieldIDPool[g.r.intn(len(fieldIDPool))]
			} else {
				id = int16(1 + g.r.intn(32767))
			}
			if !used[id] {
				break
			}
		}
		used[id] = true
		f := &Fld{ID: id, Name: fmt.Sprintf("f%d_%d", g.nname, id), T: g.genType(depth + 1)}
		if g.allowReq {
			f.Req = g.r.intn(3)
		}
		t.Fields = append(t.Fields, f)
	}
	return t
}

func (g *tgen) genType(depth int) *Ty {
	if depth >= g.maxDepth || g.r.chance(45) {
		k := scalarKinds[g.r.intn(len(scalarKinds))]
		t := &Ty{K: k}
		if k == thrift.STRING && g.r.chance(25) {
			t.Binary = true
		}
		return t
	}
	switch g.r.intn(4) {
	case 0:
		return g.genStruct(depth)
	case 1:
		return &Ty{K: thrift.LIST, Elem: g.genType(depth + 1)}
	case 2:
		return &Ty{K: thrift.SET, Elem: g.genType(depth + 1)}
	default:
		var key *Ty
		if g.structKeys && g.r.chance(10) {
			key = g.genStruct(g.maxDepth) // flat struct key
		} else {
			key = &Ty{K: g.keyKinds[g.r.intn(len(g.keyKinds))]}
		}
		return &Ty{K: thrift.MAP, Key: key, Elem: g.genType(depth + 1)}
	}
}

// the name the IDL uses for the type: its last typedef name if it was declared through typedefs (a typedef is transparent:
// the resolved type is the structural one)
func (t *Ty) idlName() string {
	if len(t.TD) > 0 {
		return t.TD[len(t.TD)-1]
	}
	return t.idlStruct()
}

func (t *Ty) idlStruct() string {
	switch t.K {
	case thrift.BOOL:
		return "bool"
	case thrift.I08:
		return "byte"
	case thrift.I16:
		return "i16"
	case thrift.I32:
		return "i32"
	case thrift.I64:
		return "i64"
	case thrift.DOUBLE:
		return "double"
	case thrift.STRING:
		if t.Binary {
			return "binary"
		}
		return "string"
	case thrift.STRUCT:
		return t.Name
	case thrift.LIST:
		return "list<" + t.Elem.idlName() + ">"
	case thrift.SET:
		return "set<" + t.Elem.idlName() + ">"
	case thrift.MAP:
		return "map<" + t.Key.idlName() + "," + t.Elem.idlName() + ">"
	}
	return "?"
}

// IDL with one service method taking/returning the root struct
func (g *tgen) idl(root *Ty) string {
	var sb strings.Builder
	sb.WriteString("namespace go verif\n")
	// structs must be declared before use? thrift allows forward references; declare in reverse creation order for safety
	for i := len(g.structs) - 1; i >= 0; i-- {
		s := g.structs[i]
		sb.WriteString("struct " + s.Name + " {\n")
		for _, f := range s.Fields {
			req := ""
			if f.Req == 1 {
				req = "required "
			} else if f.Req == 2 {
				req = "optional "
			}
			def := ""
			if f.Def != "" {
				def = " = " + f.Def
			}
			sb.WriteString(fmt.Sprintf("  %d: %s%s %s%s\n", f.ID, req, f.T.idlName(), f.Name, def))
		}
		sb.WriteString("}\n")
	}
	sb.WriteString("service Svc { " + root.Name + " M(1: " + root.Name + " req) }\n")
	return sb.String()
}

func parseThrift(idl string, opts thrift.Options) (*thrift.TypeDescriptor, error) {
	svc, err := opts.NewDescritorFromContent(context.Background(), "a.thrift", idl, map[string]string{}, false)
	if err != nil {
		return nil, err
	}
	fn := svc.Functions()["M"]
	if fn == nil {
		return nil, fmt.Errorf("no function M")
	}
	return fn.Request().Struct().FieldById(1).Type(), nil
}

// ---- abstract values -------------------------------------------------------------------------

type Val struct {
	T      *Ty
	I      int64  // bool(0/1 or raw byte) / ints
	D      uint64 // double bits
	S      []byte
	FIDs   []int16 // struct: ids present, in wire order
	Fields []*Val  // struct: values, parallel to FIDs
	Keys   []*Val  // map keys
	Elems  []*Val  // list/set elements, map values
}

var strAlphabet = []string{"a", "b", "key", "k1", "k2", "", "hello", "\x00", "é", "zz", "x y", "K", "long-long-long-key"}

func (g *tgen) genScalarBytes() []byte {
	if g.r.chance(70) {
		return []byte(strAlphabet[g.r.intn(len(strAlphabet))])
	}
	return g.r.bytes(g.r.intn(12))
}

func (g *tgen) genInt(k thrift.Type) int64 {
	v := int64(g.r.u64())
	if g.r.chance(50) {
		v = int64(g.r.intn(7)) - 3
	}
	switch k {
	case thrift.BOOL:
		return int64(g.r.intn(2))
	case thrift.I08:
		return int64(int8(v))
	case thrift.I16:
		return int64(int16(v))
	case thrift.I32:
		return int64(int32(v))
	}
	return v
}

func (g *tgen) genValue(t *Ty, depth int) *Val {
	v := &Val{T: t}
	switch t.K {
	case thrift.BOOL, thrift.I08, thrift.I16, thrift.I32, thrift.I64:
		v.I = g.genInt(t.K)
	case thrift.DOUBLE:
		v.D = g.r.u64()
		if g.r.chance(60) {
			// ordinary finite numbers
			fl := []uint64{0, 0x3ff0000000000000, 0xbff0000000000000, 0x4059000000000000, 0x3fb999999999999a, 0x8000000000000000, 0x400921fb54442d18}
			v.D = fl[g.r.intn(len(fl))]
		}
	case thrift.STRING:
		v.S = g.genScalarBytes()
	case thrift.STRUCT:
		perm := make([]int, len(t.Fields))
		for i := range perm {
			perm[i] = i
		}
		for i := len(perm) - 1; i > 0; i-- {
			j := g.r.intn(i + 1)
			perm[i], perm[j] = perm[j], perm[i]
		}
		for _, i := range perm {
			f := t.Fields[i]
			if f.Req != 1 && g.r.chance(25) {
				continue // absent
			}
			v.FIDs = append(v.FIDs, f.ID)
			v.Fields = append(v.Fields, g.genValue(f.T, depth+1))
		}
	case thrift.LIST, thrift.SET:
		n := g.r.intn(5)
		if g.r.chance(5) {
			n = 17 + g.r.intn(20)
		}
		for i := 0; i < n; i++ {
			v.Elems = append(v.Elems, g.genValue(t.Elem, depth+1))
		}
	case thrift.MAP:
		n := g.r.intn(5)
		if g.r.chance(5) {
			n = 17 + g.r.intn(20)
		}
		seen := map[string]bool{}
		for i := 0; i < n; i++ {
			k := g.genValue(t.Key, depth+1)
			kb := string(k.encode(nil))
			if seen[kb] {
				continue
			}
			seen[kb] = true
			v.Keys = append(v.Keys, k)
			v.Elems = append(v.Elems, g.genValue(t.Elem, depth+1))
		}
	}
	return v
}

func (v *Val) encode(b []byte) []byte {
	switch v.T.K {
	case thrift.BOOL, thrift.I08:
		return append(b, byte(v.I))
	case thrift.I16:
		return binary.BigEndian.AppendUint16(b, uint16(v.I))
	case thrift.I32:
		return binary.BigEndian.AppendUint32(b, uint32(v.I))
	case thrift.I64:
		return binary.BigEndian.AppendUint64(b, uint64(v.I))
	case thrift.DOUBLE:
		return binary.BigEndian.AppendUint64(b, v.D)
	case thrift.STRING:
		b = binary.BigEndian.AppendUint32(b, uint32(len(v.S)))
		return append(b, v.S...)
	case thrift.STRUCT:
		for i, id := range v.FIDs {
			b = append(b, byte(v.Fields[i].T.K))
			b = binary.BigEndian.AppendUint16(b, uint16(id))
			b = v.Fields[i].encode(b)
		}
		return append(b, 0)
	case thrift.LIST, thrift.SET:
		b = append(b, byte(v.T.Elem.K))
		b = binary.BigEndian.AppendUint32(b, uint32(len(v.Elems)))
		for _, e := range v.Elems {
			b = e.encode(b)
		}
		return b
	case thrift.MAP:
		b = append(b, byte(v.T.Key.K), byte(v.T.Elem.K))
		b = binary.BigEndian.AppendUint32(b, uint32(len(v.Elems)))
		for i, e := range v.Elems {
			b = v.Keys[i].encode(b)
			b = e.encode(b)
		}
		return b
	}
	return b
}

// ---- paths -----------------------------------------------------------------------------------

type Step struct {
	Kind int // 1 field id, 2 index, 3 str key, 4 int key, 5 bin key, 6 field name
	N    int64
	B    []byte
	// for field name steps: the id the abstract shape maps the name to (-1 = not declared)
	NameID int64
}

func (s Step) fields() []string {
	switch s.Kind {
	case 1, 2, 4:
		return []string{fi(s.Kind), fn(s.N)}
	case 6:
		return []string{fi(6), fx(s.B), fn(s.NameID)}
	default:
		return []string{fi(s.Kind), fx(s.B)}
	}
}

func pathFields(p []Step) []string {
	out := []string{fi(len(p))}
	for _, s := range p {
		out = append(out, s.fields()...)
	}
	return out
}

// all valid paths into v (to every node), capped
func (v *Val) allPaths(prefix []Step, out *[][]Step, cap int, r *rng) {
	if len(*out) >= cap {
		return
	}
	cp := append([]Step(nil), prefix...)
	*out = append(*out, cp)
	switch v.T.K {
	case thrift.STRUCT:
		for i, id := range v.FIDs {
			v.Fields[i].allPaths(append(prefix, Step{Kind: 1, N: int64(id)}), out, cap, r)
		}
	case thrift.LIST, thrift.SET:
		for i, e := range v.Elems {
			e.allPaths(append(prefix, Step{Kind: 2, N: int64(i)}), out, cap, r)
		}
	case thrift.MAP:
		for i, e := range v.Elems {
			k := v.Keys[i]
			var st Step
			switch {
			case k.T.K == thrift.STRING && r.chance(70):
				st = Step{Kind: 3, B: k.S}
			case (k.T.K == thrift.I16 || k.T.K == thrift.I32 || k.T.K == thrift.I64) && r.chance(70):
				st = Step{Kind: 4, N: k.I}
			case k.T.K == thrift.I08 && k.I >= 0 && r.chance(70):
				st = Step{Kind: 4, N: k.I}
			default:
				st = Step{Kind: 5, B: k.encode(nil)}
			}
			e.allPaths(append(prefix, st), out, cap, r)
		}
	}
}

// node addressed by a valid path
func (v *Val) at(p []Step) *Val {
	cur := v
	for _, s := range p {
		switch s.Kind {
		case 1:
			found := false
			for i, id := range cur.FIDs {
				if int64(id) == s.N {
					cur = cur.Fields[i]
					found = true
					break
				}
			}
			if !found {
				return nil
			}
		case 2:
			if s.N < 0 || int(s.N) >= len(cur.Elems) {
				return nil
			}
			cur = cur.Elems[s.N]
		default:
			found := false
			for i, k := range cur.Keys {
				if (s.Kind == 3 && string(k.S) == string(s.B)) || (s.Kind == 4 && k.I == s.N) || (s.Kind == 5 && string(k.encode(nil)) == string(s.B)) {
					cur = cur.Elems[i]
					found = true
					break
				}
			}
			if !found {
				return nil
			}
		}
	}
	return cur
}

// perturb the last step of a valid path into an invalid / absent one
func (g *tgen) badStep(parent *Val) Step {
	r := g.r
	switch r.intn(8) {
	case 0:
		return Step{Kind: 1, N: int64(1 + r.intn(32767))} // probably absent id / wrong kind
	case 1:
		return Step{Kind: 2, N: int64(len(parent.Elems))} // one past the end
	case 2:
		return Step{Kind: 2, N: int64(len(parent.Elems) + 1 + r.intn(5))}
	case 3:
		return Step{Kind: 3, B: []byte("absent-key")}
	case 4:
		return Step{Kind: 4, N: int64(r.intn(100000)) + 77777}
	case 5:
		return Step{Kind: 5, B: r.bytes(1 + r.intn(6))}
	case 6:
		return Step{Kind: 2, N: -1 - int64(r.intn(3))}
	default:
		return Step{Kind: 1, N: 0}
	}
}

func sortedFieldIDs(t *Ty) []int {
	var ids []int
	for _, f := range t.Fields {
		ids = append(ids, int(f.ID))
	}
	sort.Ints(ids)
	return ids
}

// typedef declarations of every type reachable from the given roots that carries a typedef chain (inner types first)
func typedefDecls(roots []*Ty) string {
	var sb strings.Builder
	seen := map[*Ty]bool{}
	var walk func(t *Ty)
	walk = func(t *Ty) {
		if t == nil || seen[t] {
			return
		}
		seen[t] = true
		for _, f := range t.Fields {
			walk(f.T)
		}
		walk(t.Key)
		walk(t.Elem)
		for i, n := range t.TD {
			of := t.idlStruct()
			if i > 0 {
				of = t.TD[i-1]
			}
			sb.WriteString("typedef " + of + " " + n + "\n")
		}
	}
	for _, r := range roots {
		walk(r)
	}
	return sb.String()
}
