//go:build verif

package main

import (
	"github.com/cloudwego/dynamicgo/proto"
	"github.com/cloudwego/dynamicgo/proto/binary"
	rw "google.golang.org/protobuf/encoding/protowire"
)

// 2008: Skip of one wire value on complete, truncated (every truncation point) and over-long inputs.
func init() {
	base := generators["C20"]
	generators["C20"] = func(r *rng, n int) {
		base(r, n)
		genC20Skip(r, n)
	}
}

func genC20Skip(r *rng, n int) {
	emit := func(wt proto.WireType, b []byte) {
		var err error
		rd := 0
		ok, _ := noPanic(func() {
			p := binary.BinaryProtocol{Buf: b}
			err = p.Skip(wt, false)
			rd = p.Read
		})
		code := berr(err)
		if !ok {
			code = "n3"
		}
		out.emit(2008, fi(int(wt)), fx(b), code, fi(rd))
	}
	k := 12 + n/400
	for i := 0; i < k; i++ {
		var vals [][]byte
		// length-delimited values of sizes around every prefix-width boundary reachable here
		for _, sz := range []int{0, 1, 2, 3, 126, 127, 128, 129, 300, 16383, 16384, 16385} {
			if sz > 400 && i > 1 {
				continue
			}
			vals = append(vals, rw.AppendBytes(nil, r.bytes(sz)))
		}
		for _, v := range vals {
			tail := r.bytes(r.intn(3))
			emit(proto.BytesType, append(append([]byte{}, v...), tail...))
			// every truncation point near the end and inside the prefix, plus a random interior one
			for cut := 0; cut < len(v) && cut < 6; cut++ {
				emit(proto.BytesType, v[:cut])
			}
			for d := 1; d <= 5 && d <= len(v); d++ {
				emit(proto.BytesType, v[:len(v)-d])
			}
			if len(v) > 12 {
				emit(proto.BytesType, v[:6+r.intn(len(v)-6)])
			}
		}
		// declared lengths far beyond the input
		for _, l := range []uint64{1 << 31, 1<<32 - 1, 1 << 62, 1<<63 - 1, 1 << 63, 1<<64 - 1, uint64(r.u64())} {
			emit(proto.BytesType, append(rw.AppendVarint(nil, l), r.bytes(r.intn(4))...))
		}
		v := rw.AppendVarint(nil, r.u64())
		for cut := 0; cut <= len(v); cut++ {
			emit(proto.VarintType, v[:cut])
		}
		emit(proto.VarintType, append(append([]byte{}, v...), 0x80))
		emit(proto.VarintType, []byte{0xff, 0xff, 0xff, 0xff, 0xff, 0xff, 0xff, 0xff, 0xff, 0x02})
		f := r.bytes(9)
		for cut := 0; cut <= 9; cut++ {
			emit(proto.Fixed32Type, f[:cut])
			emit(proto.Fixed64Type, f[:cut])
		}
	}
}
